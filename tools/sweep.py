#!/venv/bin/python
"""tools/sweep.py [--tier quick] [--seeds 1,2,3] [IDs...] : runs checks over several seeds from fresh processes, reports anything not HELD"""
import argparse, json, os, subprocess, sys, time
V = os.path.dirname(os.path.dirname(os.path.realpath(__file__)))
ap = argparse.ArgumentParser()
ap.add_argument('--tier', default='quick')
ap.add_argument('--seeds', default='1,2,3')
ap.add_argument('ids', nargs='*')
a = ap.parse_args()
ids = a.ids or [c['property_id'] for c in json.load(open(os.path.join(V, 'MANIFEST.json')))['checks']]
bad = 0
for pid in ids:
  for seed in a.seeds.split(','):
    t0 = time.time()
    r = subprocess.run([sys.executable, '-m', 'vt.cli', pid, '--tier', a.tier, '--no-evidence'], cwd=V,
                       env=dict(os.environ, VERIF_SEED=seed, PYTHONHASHSEED='0'), capture_output=True, text=True)
    tag = 'ok' if r.returncode == 0 else 'EXIT %d' % r.returncode
    print('%s seed=%s %s %.1fs' % (pid, seed, tag, time.time() - t0))
    sys.stdout.flush()
    if r.returncode != 0:
      bad += 1
      print('   ' + '\n   '.join((r.stdout + r.stderr).splitlines()[-8:])[:3000])
print('non-held runs:', bad)
