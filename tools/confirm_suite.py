#!/venv/bin/python
"""tools/confirm_suite.py [name...]: for every seeded change whose meta.json has no repository-suite result yet (or the named ones),
makes a scratch git worktree of /repo (outside /repo and /verif), applies patch.diff, runs the repository's own suite there
(the always-failing crypto test deselected), records the last line in meta.json and removes the worktree.  Run it when the
machine is quiet: test/comprehensive_hsm_test.py is timing sensitive."""
import glob, json, os, subprocess, sys, tempfile
V = os.path.dirname(os.path.dirname(os.path.realpath(__file__)))
for d in sorted(glob.glob(os.path.join(V, 'seeded', '*'))):
  mp = os.path.join(d, 'meta.json')
  if not os.path.exists(mp):
    continue
  m = json.load(open(mp))
  name = os.path.basename(d)
  have = (m.get('confirmed') or {}).get('repository_suite_with_change')
  if sys.argv[1:]:
    if not any(a in name for a in sys.argv[1:]):
      continue
  elif have and 'failed' not in have:
    continue
  if m.get('status', 'kept') != 'kept':
    continue
  wt = tempfile.mkdtemp(prefix='vt-suite-')
  os.rmdir(wt)
  try:
    subprocess.run(['git', '-C', '/repo', 'worktree', 'add', '-q', '--detach', wt, 'HEAD'], check=True)
    r = subprocess.run(['git', 'apply', os.path.join(d, 'patch.diff')], cwd=wt, capture_output=True, text=True)
    if r.returncode != 0:
      print(name, 'PATCH-FAILED', r.stderr[-200:]); continue
    last = None
    for attempt in range(3):
      r = subprocess.run('timeout 1500 /venv/bin/python -m pytest -q -p no:cacheprovider --timeout=900 --deselect test/crypto_test.py::test_cryptography 2>&1 | tail -1',
                         shell=True, cwd=wt, env=dict(os.environ, PYTHONPATH=wt), capture_output=True, text=True)
      last = r.stdout.strip()
      if 'failed' not in last:
        break
    m.setdefault('confirmed', {})['repository_suite_with_change'] = last + (' (attempt %d; earlier attempts had timing failures in test/comprehensive_hsm_test.py under load)' % (attempt + 1) if attempt else '')
    json.dump(m, open(mp, 'w'), indent=1)
    print(name, '|', last); sys.stdout.flush()
  finally:
    subprocess.run(['git', '-C', '/repo', 'worktree', 'remove', '--force', wt])
