#!/venv/bin/python
"""tools/try_seed.py <PID> <worktree> <seed-name> [--checks C19,C15] [--skip-suite]
Confirms a sub-agent's breaking change in its scratch worktree (demo fails with / passes without the change, the
repository's suite still passes with it), runs the property's check(s) against it (MIROS_ROOT=<worktree>) and files
it under /verif/seeded/<seed-name>/ with meta.json."""
import argparse, json, os, shutil, subprocess, sys, time
ap = argparse.ArgumentParser()
ap.add_argument('pid'); ap.add_argument('wt'); ap.add_argument('name')
ap.add_argument('--checks'); ap.add_argument('--skip-suite', action='store_true'); ap.add_argument('--tier', default='quick')
a = ap.parse_args()
wt = a.wt
env = dict(os.environ, PYTHONPATH=wt, PYTHONHASHSEED='0')
def sh(cmd, **kw):
  return subprocess.run(cmd, shell=True, cwd=wt, env=env, capture_output=True, text=True, **kw)
diff = sh('git diff -- miros').stdout
assert diff.strip(), 'no change applied in worktree'
open(os.path.join(wt, 'patch.confirmed.diff'), 'w').write(diff)
res = {}
def demo():
  r = sh('timeout 600 /venv/bin/python demo.py')
  return r.returncode, (r.stdout + r.stderr)[-300:]
res['demo_with_change'] = [demo() for _ in range(3)]
# (git stash is shared between worktrees: never use it here)
r = sh('git checkout -- miros')
assert r.returncode == 0, r.stderr
try:
  res['demo_without_change'] = [demo() for _ in range(2)]
finally:
  r = sh('git apply patch.confirmed.diff')
  assert r.returncode == 0, r.stderr
assert sh('git diff -- miros').stdout == diff
if not a.skip_suite:
  r = sh('timeout 1500 /venv/bin/python -m pytest -q -p no:cacheprovider --timeout=900 --deselect test/crypto_test.py::test_cryptography 2>&1 | tail -3')
  res['suite_with_change'] = r.stdout.strip().splitlines()[-1] if r.stdout.strip() else r.stderr[-200:]
checks = (a.checks or a.pid).split(',')
res['checks'] = {}
for c in checks:
  t0 = time.time()
  r = subprocess.run([sys.executable, '-m', 'vt.cli', c, '--tier', a.tier, '--no-evidence'], cwd='/verif', env=dict(os.environ, MIROS_ROOT=wt, PYTHONHASHSEED='0'), capture_output=True, text=True)
  lines = [l for l in r.stdout.splitlines() if l.startswith('VIOLATION') or l.startswith('INCONCLUSIVE') or l.startswith('HELD')]
  res['checks'][c] = {'exit': r.returncode, 'wall_s': round(time.time() - t0, 1), 'lines': [l[:400] for l in lines[:4]]}
ok_demo = all(rc == 1 for rc, _ in res['demo_with_change'][:1]) and all(rc == 0 for rc, _ in res['demo_without_change'])
print(json.dumps(res, indent=1))
dst = os.path.join('/verif/seeded', a.name)
os.makedirs(dst, exist_ok=True)
open(os.path.join(dst, 'patch.diff'), 'w').write(diff)
for f in ('demo.py', 'NOTES.md'):
  if os.path.exists(os.path.join(wt, f)):
    shutil.copy(os.path.join(wt, f), os.path.join(dst, f))
meta = {'property': a.pid, 'confirmed': {'demo_fails_with_change': [rc for rc, _ in res['demo_with_change']], 'demo_passes_without_change': [rc for rc, _ in res['demo_without_change']],
        'repository_suite_with_change': res.get('suite_with_change')}, 'checks_run_against_it': res['checks'],
        'caught_by': [c for c, v in res['checks'].items() if v['exit'] == 1], 'needs_to_manifest': '(see NOTES.md)', 'ran': 'tools/try_seed.py %s' % ' '.join(sys.argv[1:])}
try:
  old = json.load(open(os.path.join(dst, 'meta.json')))
  if meta['confirmed']['repository_suite_with_change'] is None:
    meta['confirmed']['repository_suite_with_change'] = old['confirmed'].get('repository_suite_with_change')
  for k in ('needs_to_manifest', 'first_attempt', 'status', 'base_commit', 'history'):
    if k in old and (k not in meta or meta[k] == '(see NOTES.md)'):
      meta[k] = old[k]
  if old.get('caught_by') == [] and meta['caught_by'] and 'first_attempt' not in meta:
    meta['first_attempt'] = 'MISSED by %s as first built; caught after the check was widened (see DESIGN.md section 11)' % ','.join(old.get('checks_run_against_it', {}))
except FileNotFoundError:
  pass
json.dump(meta, open(os.path.join(dst, 'meta.json'), 'w'), indent=1)
print('demo ok:', ok_demo, ' caught by:', meta['caught_by'])
