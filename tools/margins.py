#!/venv/bin/python
"""tools/margins.py [--seeds 0,1,2,3] [IDs]: for every check prints the smallest ratio counter/REQUIRE seen over the seeds (quick tier):
how far the coverage minimums are from turning a clean run INCONCLUSIVE"""
import argparse, importlib, json, os, re, subprocess, sys
V = os.path.dirname(os.path.dirname(os.path.realpath(__file__)))
sys.path.insert(0, V)
ap = argparse.ArgumentParser(); ap.add_argument('--seeds', default='0,1,2,3'); ap.add_argument('--tier', default='quick'); ap.add_argument('ids', nargs='*')
a = ap.parse_args()
ids = a.ids or [c['property_id'] for c in json.load(open(os.path.join(V, 'MANIFEST.json')))['checks']]
os.environ.setdefault('MIROS_ROOT', '/repo')
from vt import load
load.setup()
for pid in ids:
  mod = importlib.import_module('vt.checks.' + pid.lower())
  req = getattr(mod, 'REQUIRE', {})
  if isinstance(req.get(a.tier), dict):
    req = req[a.tier]
  worst = {}
  for seed in a.seeds.split(','):
    r = subprocess.run([sys.executable, '-m', 'vt.cli', pid, '--tier', a.tier, '--no-evidence'], cwd=V, env=dict(os.environ, VERIF_SEED=seed, PYTHONHASHSEED='0'), capture_output=True, text=True)
    line = next((l for l in r.stdout.splitlines() if l.startswith(pid + ' tier=')), '')
    cnt = dict((k, float(v)) for k, v in re.findall(r'(\S+)=([0-9.]+)', line))
    for k, mn in req.items():
      ratio = cnt.get(k, 0) / mn if mn else 99
      if k not in worst or ratio < worst[k][0]:
        worst[k] = (ratio, seed, cnt.get(k, 0), mn)
  w = sorted(worst.items(), key=lambda kv: kv[1][0])[:2]
  print(pid, ' '.join('%s=%.1fx(seed %s: %d/%d)' % (k, v[0], v[1], v[2], v[3]) for k, v in w)); sys.stdout.flush()
