#!/venv/bin/python
"""tools/addfix.py <commit> <property[,property]> <short-name> <what failed>
records a repaired defect: fixed entry in known_findings.json + revert-mutant."""
import json, subprocess, sys, os
V = os.path.dirname(os.path.dirname(os.path.realpath(__file__)))
commit, props, name, what = sys.argv[1], sys.argv[2].split(','), sys.argv[3], sys.argv[4]
sha = subprocess.check_output(['git', '-C', '/repo', 'rev-parse', '--short', commit], text=True).strip()
patch = subprocess.check_output(['git', '-C', '/repo', 'show', '-R', '--format=', sha, '--', 'miros'], text=True)
fn = '%s-revert-%s.patch' % (props[0], name)
open(os.path.join(V, 'mutants', fn), 'w').write(patch)
idx = json.load(open(os.path.join(V, 'mutants', 'index.json')))
idx['mutants'] = [m for m in idx['mutants'] if m['file'] != fn] + [{'file': fn, 'properties': props, 'what': 'revert fix %s: %s' % (sha, what)}]
json.dump(idx, open(os.path.join(V, 'mutants', 'index.json'), 'w'), indent=1)
kf = json.load(open(os.path.join(V, 'known_findings.json')))
key = sys.argv[5] if len(sys.argv) > 5 else '%s/%s' % (props[0], name)
kf['findings'] = [f for f in kf['findings'] if not (f['property'] == props[0] and f.get('commit') == sha)] + [
  {'property': props[0], 'key': key, 'status': 'fixed', 'commit': sha, 'what': 'fixed: property=%s %s %s' % (props[0], sha, what)}]
json.dump(kf, open(os.path.join(V, 'known_findings.json'), 'w'), indent=1)
print('recorded', fn)
