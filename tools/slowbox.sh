#!/bin/bash
# tools/slowbox.sh [cores] [ids...]: runs every quick check pinned to a few cores (a slow / loaded machine) and reports anything that is not HELD
N=${1:-4}; shift
V=$(cd "$(dirname "$0")/.." && pwd); cd "$V"
IDS=${@:-$(python3 -c "import json;print(' '.join(c['property_id'] for c in json.load(open('MANIFEST.json'))['checks']))")}
for c in $IDS; do
  s=$(date +%s.%N)
  out=$(taskset -c 0-$((N-1)) /venv/bin/python -m vt.cli $c --tier quick --no-evidence 2>&1); rc=$?
  e=$(date +%s.%N)
  printf "%s rc=%d %.0fs %s\n" $c $rc $(echo "$e - $s" | bc) "$(echo "$out" | grep -E '^(INCONCLUSIVE|VIOLATION)' | head -3 | cut -c1-300)"
done
