#!/venv/bin/python
"""prints the sub-agent prompt for one property (only the property text and a scratch worktree are given)"""
import json, sys
import glob, os
pid, wt = sys.argv[1], sys.argv[2]
V = os.path.dirname(os.path.dirname(os.path.realpath(__file__)))
avoid = []
for d in sorted(glob.glob(os.path.join(V, 'seeded', '*', 'meta.json'))):
  m = json.load(open(d))
  if m['property'] == pid or pid in (m.get('caught_by') or []):
    avoid.append('  - %s: %s' % (os.path.basename(os.path.dirname(d)).split('-', 1)[1].replace('-', ' '), m.get('needs_to_manifest', '')))
try:
  for m in json.load(open(os.path.join(V, 'mutants', 'index.json')))['mutants']:
    if pid in m['properties']:
      avoid.append('  - %s' % m.get('what', m['file']))
except Exception:
  pass
AVOID = ''
if '--avoid' in sys.argv and avoid:
  AVOID = """

Other people have ALREADY tried the following ideas for this property; do NOT repeat them or close variants of them - find a DIFFERENT mechanism, preferably in a different function or code path that the property depends on (look at every method the property's behaviour flows through, including helper classes, wrappers/decorators, the less used entry points and parameter combinations):
""" + '\n'.join(avoid)
p = [json.loads(l) for l in open('/verif/properties.jsonl') if json.loads(l)['id'] == pid][0]
TEXT = (f"""You are helping to test a verification effort for the Python library aleph2c/miros (a UML statechart library: hierarchical state machine event processor in miros/hsm.py, threaded active objects + publish/subscribe fabric + timed events in miros/activeobject.py, signals/events in miros/event.py, miros/singleton.py, miros/thread_safe_attributes.py).

You have your OWN scratch git worktree of the repository at {wt} . Work ONLY inside {wt} (never touch /repo or /verif, do not read /verif). Python is /venv/bin/python. Run things from inside the worktree so that `import miros` picks up the worktree copy, e.g.:
  cd {wt} && PYTHONPATH={wt} /venv/bin/python -m pytest -q -p no:cacheprovider --timeout=900 --deselect test/crypto_test.py::test_cryptography
(the full suite takes about one minute; test/crypto_test.py::test_cryptography always fails, also on the unchanged tree - ignore it; test/comprehensive_hsm_test.py test_group_4 and test_group_14 are known to be flaky; the whole file test/comprehensive_hsm_test.py is timing sensitive and shows random failures when the machine is loaded - other people run suites at the same time, so re-run that file alone before blaming your change).

Here is a semantic property that the library is supposed to satisfy:

  id: {p['id']}
  title: {p['title']}
  statement: {p['statement']}
  quantified over: {p['quantifier']['text']}

YOUR TASK: make a small, realistic change to the library source under {wt}/miros (the kind of mistake a maintainer could plausibly make in a refactoring, optimisation or "simplification": a dropped lock, a reordered pair of statements, an off-by-one, a wrong comparison, a condition made slightly too narrow or too wide, a cached value not refreshed, two call sites that each look fine alone ...) such that
  1. the property above is BROKEN by the change,
  2. the library still imports and the existing test suite still passes with the change (run it; apart from the always-failing crypto test and the two flaky groups),
  3. the break needs something SPECIFIC to manifest - a particular interleaving of threads, a fault or cancellation at a particular point, a multi-step sequence of operations, an unusual input or chart shape, or two cooperating sites - NOT something that ordinary use of the library would expose at once. Avoid changes that break everything.
{{AVOID_PLACEHOLDER}}Do not edit the tests. Do not add hooks or test-only code to the library. One change (it may touch two sites if they cooperate).

Then write a DEMONSTRATION: a small standalone program {wt}/demo.py (plain python, no pytest needed; it may use threads, sleeps, many iterations, sys.setswitchinterval, or monkeypatch a stdlib function to inject a delay at the critical point) that exits 0 and prints PASS on the UNCHANGED library and exits 1 and prints FAIL on the changed library, reliably (say at least 9 out of 10 runs). Verify both: inside the worktree use `git diff -- miros > patch.diff; git checkout -- miros; <run demo>; git apply patch.diff; <run demo>` to run the demo without and with your change. NEVER use `git stash` (the stash is shared between all worktrees of the repository and other people are working in sibling worktrees).

When you are done leave in {wt}:
  - patch.diff  : output of `git diff -- miros` for your change (and leave the change applied in the working tree)
  - demo.py     : the demonstration
  - NOTES.md    : which property it breaks and how, what exactly is needed for the break to manifest (the interleaving / sequence / input), and the exact commands you ran with their results (test suite with the change; demo without and with the change).
Reply with a short summary: the idea of the change, what it needs to manifest, and the results of the three runs. If after honest effort you cannot find such a change, say so and explain what you tried.""")
print(TEXT.replace('{AVOID_PLACEHOLDER}', (AVOID + '\n\n') if AVOID else ''))
