#!/venv/bin/python
"""tools/check_seeds.py [name...]: applies every kept seeded change (seeded/*/patch.diff) to a scratch copy of /repo/miros
(outside /repo and /verif), runs the check(s) named in its meta.json (caught_by, else property) with MIROS_ROOT pointing at the
copy and requires exit 1 + VIOLATION; removes the copy."""
import concurrent.futures as cf, glob, json, os, shutil, subprocess, sys, tempfile, time
V = os.path.dirname(os.path.dirname(os.path.realpath(__file__)))
def one(d):
  meta = json.load(open(os.path.join(d, 'meta.json')))
  name = os.path.basename(d)
  if meta.get('status', 'kept') != 'kept':
    return name, 'skipped (%s)' % meta.get('status'), 0
  tmp = tempfile.mkdtemp(prefix='vt-seed-')
  try:
    shutil.copytree('/repo/miros', os.path.join(tmp, 'miros'), ignore=shutil.ignore_patterns('__pycache__', '*.rst'))
    r = subprocess.run(['patch', '-p1', '-s', '-i', os.path.join(d, 'patch.diff')], cwd=tmp, capture_output=True, text=True)
    if r.returncode != 0:
      return name, 'PATCH-FAILED ' + (r.stdout + r.stderr)[-200:], 0
    t0 = time.time()
    for c in (meta.get('caught_by') or [meta['property']]):
      r = subprocess.run([sys.executable, '-m', 'vt.cli', c, '--tier', 'quick', '--no-evidence'], cwd=V, env=dict(os.environ, MIROS_ROOT=tmp, PYTHONHASHSEED='0'), capture_output=True, text=True)
      if r.returncode == 1 and 'VIOLATION property=%s' % c in r.stdout:
        return name, 'CAUGHT by ' + c, time.time() - t0
    return name, 'MISSED', time.time() - t0
  finally:
    shutil.rmtree(tmp, ignore_errors=True)
dirs = sorted(d for d in glob.glob(os.path.join(V, 'seeded', '*')) if os.path.isdir(d) and (not sys.argv[1:] or any(a in d for a in sys.argv[1:])))
bad = 0
with cf.ThreadPoolExecutor(max_workers=3) as ex:
  for name, status, dt in ex.map(one, dirs):
    print('%-55s %-25s %5.1fs' % (name, status, dt)); sys.stdout.flush()
    bad += status.startswith('MISSED') or status.startswith('PATCH')
print('seeds not caught:', bad)
sys.exit(1 if bad else 0)
