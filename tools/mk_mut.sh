#!/bin/bash
# usage: mk_mut.sh <name.patch> <props> <what> -- then python script on stdin edits files under $W/miros
set -e
name=$1; props=$2; what=$3
W=$(mktemp -d /tmp/mkmut-XXXX)
mkdir -p $W/a $W/b
cp -r /repo/miros $W/a/miros; cp -r /repo/miros $W/b/miros
rm -rf $W/a/miros/__pycache__ $W/b/miros/__pycache__
(cd $W/b && /venv/bin/python -)
(cd $W && diff -ru a/miros b/miros > /verif/mutants/$name) || true
rm -rf $W
test -s /verif/mutants/$name || { echo "EMPTY PATCH"; exit 1; }
/venv/bin/python - "$name" "$props" "$what" <<'P'
import json,sys
name,props,what=sys.argv[1:4]
p='/verif/mutants/index.json'
idx=json.load(open(p))
idx['mutants']=[m for m in idx['mutants'] if m['file']!=name]+[{'file':name,'properties':props.split(','),'what':what}]
json.dump(idx,open(p,'w'),indent=1)
P
echo "mutant $name written"
