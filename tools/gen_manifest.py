#!/venv/bin/python
"""Regenerates /verif/MANIFEST.json from the check modules present in vt/checks
(LEVEL_TEXT / LEVEL_NOTE / TECHNIQUE attributes) -- properties without a check
module are listed under not_applicable with the reason from NOT_BUILT."""
import importlib, json, os, sys
V = os.path.dirname(os.path.dirname(os.path.realpath(__file__)))
sys.path.insert(0, V)
os.environ.setdefault('MIROS_ROOT', '/repo')
from vt import load
load.setup()
props = [json.loads(l) for l in open(os.path.join(V, 'properties.jsonl'))]
NOT_BUILT = {}
try:
  NOT_BUILT = json.load(open(os.path.join(V, 'tools', 'not_applicable.json')))
except FileNotFoundError:
  pass
checks, na = [], []
for p in props:
  pid = p['id']
  path = os.path.join(V, 'vt', 'checks', pid.lower() + '.py')
  if not os.path.exists(path) or pid in NOT_BUILT:
    na.append({'property_id': pid, 'reason': NOT_BUILT.get(pid, 'runtime monitor for this property is not built yet in this round (planned in DESIGN.md section 3); not claimed')})
    continue
  m = importlib.import_module('vt.checks.' + pid.lower())
  checks.append({
    'property_id': pid,
    'quick_cmd': 'cd /verif && /venv/bin/python -m vt.cli %s --tier quick' % pid,
    'thorough_cmd': 'cd /verif && /venv/bin/python -m vt.cli %s --tier thorough' % pid,
    'evidence_file': '/verif/evidence/%s.json' % pid,
    'replay_cmd_template': 'cd /verif && /venv/bin/python -m vt.cli %s --replay {path}' % pid,
    'engine': getattr(m, 'ENGINE', 'chartgen+model'),
    'level_claimed': {
      'category': 'exploration',
      'text': getattr(m, 'LEVEL_TEXT', 'Runtime monitoring: the real miros code from /repo is executed on generated cases and an oracle decides each execution; held means "held on the executions counted in the evidence file", nothing is proved. ' + m.RULE),
      'design_ref': 'DESIGN.md section 3, ' + pid,
    },
    'level_note': getattr(m, 'LEVEL_NOTE', '; '.join(getattr(m, 'ASSUME', [])) or 'trusted: CPython, the harness oracles'),
    'technique': getattr(m, 'TECHNIQUE', 'runtime monitoring: generated workloads + differential oracle against a reference model'),
  })
man = {
  'version': 1,
  'setup_cmd': 'cd /verif && /venv/bin/python -m vt.setup',
  'hooks': {
    'guard': 'MIROS_VERIF',
    'enable': 'no hooks: checks import miros from /repo (MIROS_ROOT) unmodified; all observation is done by subclassing and by substituting module globals from the harness. The guard name is reserved and unused.',
    'baseline_off_cmd': 'cd /repo && /venv/bin/python -m pytest -ra -q -p no:cacheprovider --timeout=900 --continue-on-collection-errors',
    'source_commits': [],
    'add_only': True,
  },
  'engines': [
    {'name': 'chartgen+model', 'path': 'vt/chartgen.py', 'kind_free_text': 'random statechart generator, ground-truth logging handlers, independent reference model; sequential differential runners (vt/seqrun.py)',
     'serves_properties': [c['property_id'] for c in checks if c['engine'] == 'chartgen+model']},
    {'name': 'detsched', 'path': 'vt/detsched.py', 'kind_free_text': 'deterministic cooperative scheduler over the real miros threads (sys.settrace line/opcode yield points, cooperative shims for Thread/Queue/PriorityQueue/time/RLock, virtual time), history checkers',
     'serves_properties': [c['property_id'] for c in checks if c['engine'] == 'detsched']},
    {'name': 'sysx', 'path': 'vt/sysx.py', 'kind_free_text': 'systematic delay-bounded (depth-first) enumeration of the schedules of small scenarios on top of detsched: every schedule that deviates at most k times from a deterministic default scheduler',
     'serves_properties': ['C05', 'C25', 'C27', 'C28', 'C29', 'C30']},
    {'name': 'osback', 'path': 'vt/osback.py', 'kind_free_text': 'OS-thread second opinion: real threads and real primitives, nothing substituted; switch interval 1 us and random yields at line starts of miros code; only wall-clock-free verdicts, hangs are inconclusive',
     'serves_properties': ['C04', 'C25', 'C27', 'C30']},
    {'name': 'seq', 'path': 'vt/checks', 'kind_free_text': 'sequential generated-history monitors with executable reference models',
     'serves_properties': [c['property_id'] for c in checks if c['engine'] == 'seq']},
  ],
  'checks': checks,
  'not_applicable': na,
  'notes': 'All checks: python -m vt.cli <ID> --tier quick|thorough; VERIF_SEED / VERIF_TIER honoured; exit 0 held, 1 VIOLATION, 3 INCONCLUSIVE. known_findings.json lists known findings and repaired defects; mutants/ + python -m vt.selftest validate the monitors.',
}
json.dump(man, open(os.path.join(V, 'MANIFEST.json'), 'w'), indent=1)
print('checks:', len(checks), 'not_applicable:', len(na))
