#!/bin/bash
# tools/against.sh <patch file | seeded dir name | mutant file name> <check id> [tier] [seed]: runs one check against a scratch copy of /repo/miros carrying the patch
P=$1; C=$2; T=${3:-quick}; S=${4:-0}
V=$(cd "$(dirname "$0")/.." && pwd)
[ -f "$P" ] || { [ -f "$V/seeded/$P/patch.diff" ] && P="$V/seeded/$P/patch.diff"; }
[ -f "$P" ] || { [ -f "$V/mutants/$P" ] && P="$V/mutants/$P"; }
D=$(mktemp -d /tmp/vt-against-XXXXXX)
cp -r /repo/miros "$D/miros"
(cd "$D" && patch -p1 -s -i "$P") || { rm -rf "$D"; echo PATCH-FAILED; exit 2; }
(cd "$V" && MIROS_ROOT="$D" VERIF_SEED=$S PYTHONHASHSEED=0 /venv/bin/python -m vt.cli "$C" --tier "$T" --no-evidence | cut -c1-600 | grep -E "^(VIOLATION|HELD|INCONCLUSIVE|C[0-9]+ tier)")
rm -rf "$D"
