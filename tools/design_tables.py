#!/venv/bin/python
"""regenerates the generated tables of DESIGN.md (sections 9 and 11) from known_findings.json, mutants/last_selftest.json and seeded/*/meta.json"""
import glob, json, os, re, subprocess
V = os.path.dirname(os.path.dirname(os.path.realpath(__file__)))
kf = json.load(open(os.path.join(V, 'known_findings.json')))['findings']
out9 = ['| property | commit | what failed on the pinned tree (mechanism key of the monitor that showed it) |', '|---|---|---|']
for f in sorted((f for f in kf if f['status'] == 'fixed'), key=lambda f: f['property']):
  out9.append('| %s | `%s` | %s (`%s`) |' % (f['property'], f['commit'], f['what'].split(' ', 3)[3] if f['what'].startswith('fixed:') else f['what'], f['key']))
out9 += ['', 'Known findings (recorded, not repaired):', '', '| property | key | what |', '|---|---|---|']
for f in kf:
  if f['status'] == 'known':
    out9.append('| %s | `%s` | %s |' % (f['property'], f['key'], f['what']))
out11 = []
try:
  st = json.load(open(os.path.join(V, 'mutants', 'last_selftest.json')))
  out11 += ['Mutants (`mutants/*.patch`, run by `python -m vt.selftest`, quick tier, seed %s):' % st['seed'], '', '| mutant | breaks | result | what it changes |', '|---|---|---|---|']
  for r in st['results']:
    out11.append('| `%s` | %s | %s (%.0f s) | %s |' % (r['file'], ','.join(r['properties']), r['status'], r['wall_s'], r.get('what') or ''))
except FileNotFoundError:
  out11.append('(run `python -m vt.selftest` to generate mutants/last_selftest.json)')
out11 += ['', 'Independently seeded changes (`seeded/<name>/`: patch.diff, demo.py, NOTES.md, meta.json; written by sub-agents that saw only the property text; re-run by `tools/check_seeds.py`):', '',
          '| seeded change | property | needs to manifest | caught by | first attempt |', '|---|---|---|---|---|']
for d in sorted(glob.glob(os.path.join(V, 'seeded', '*', 'meta.json'))):
  m = json.load(open(d))
  out11.append('| `%s` | %s | %s | %s | %s |' % (os.path.basename(os.path.dirname(d)), m['property'], m.get('needs_to_manifest', ''), ', '.join(m.get('caught_by') or []) or '-', m.get('first_attempt', 'caught as built') if m.get('status', 'kept') == 'kept' else ('%s: %s' % (m.get('status'), m.get('history', m.get('first_attempt', ''))))))
p = os.path.join(V, 'DESIGN.md')
s = open(p).read()
for tag, body in (('9', out9), ('11', out11)):
  a, b = '<!-- BEGIN GENERATED %s -->' % tag, '<!-- END GENERATED %s -->' % tag
  s = s[:s.index(a) + len(a)] + '\n' + '\n'.join(body) + '\n' + s[s.index(b):]
open(p, 'w').write(s)
print('DESIGN.md tables regenerated')
