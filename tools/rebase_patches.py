#!/venv/bin/python
"""tools/rebase_patches.py [--base <commit>] : after a repository fix, re-bases every kept patch (mutants/*.patch,
seeded/*/patch.diff) that no longer applies to /repo's working tree: the patch is applied to the tree of <commit> (default
HEAD~1), and the result is merged three-way (git merge-file) with the current files.  Conflicts are reported, not resolved.
Scratch copies live under a temporary directory outside /repo and /verif and are removed."""
import glob, json, os, shutil, subprocess, sys, tempfile
V = os.path.dirname(os.path.dirname(os.path.realpath(__file__)))
base = sys.argv[sys.argv.index('--base') + 1] if '--base' in sys.argv else 'HEAD~1'
def sh(*a, **k):
  return subprocess.run(a, capture_output=True, text=True, **k)
def applies(patch, root):
  return sh('patch', '-p1', '-s', '--dry-run', '-i', patch, cwd=root).returncode == 0
T = tempfile.mkdtemp(prefix='vt-rebase-')
try:
  cur, old = os.path.join(T, 'cur'), os.path.join(T, 'old')
  os.makedirs(cur); os.makedirs(old)
  shutil.copytree('/repo/miros', os.path.join(cur, 'miros'), ignore=shutil.ignore_patterns('__pycache__'))
  tar = subprocess.run(['git', '-C', '/repo', 'archive', base, 'miros'], capture_output=True).stdout
  subprocess.run(['tar', '-x', '-C', old], input=tar)
  patches = sorted(glob.glob(os.path.join(V, 'mutants', '*.patch')) + glob.glob(os.path.join(V, 'seeded', '*', 'patch.diff')))
  for p in patches:
    if p.endswith('patch.diff'):
      meta = json.load(open(os.path.join(os.path.dirname(p), 'meta.json')))
      if meta.get('status', 'kept') != 'kept':
        continue
    if applies(p, cur):
      continue
    name = os.path.relpath(p, V)
    if not applies(p, old):
      print('STALE-ON-BOTH', name); continue
    th = os.path.join(T, 'theirs'); shutil.rmtree(th, ignore_errors=True); shutil.copytree(old, th)
    sh('patch', '-p1', '-s', '-i', p, cwd=th)
    mg = os.path.join(T, 'merged'); shutil.rmtree(mg, ignore_errors=True); shutil.copytree(cur, mg)
    conflict = False
    for f in os.listdir(os.path.join(th, 'miros')):
      a, b, c = os.path.join(mg, 'miros', f), os.path.join(old, 'miros', f), os.path.join(th, 'miros', f)
      if not os.path.isfile(c) or not os.path.isfile(b) or open(b).read() == open(c).read():
        continue
      r = sh('git', 'merge-file', a, b, c)
      if r.returncode != 0:
        conflict = True
    if conflict:
      print('CONFLICT', name); continue
    os.rename(os.path.join(T, 'cur'), os.path.join(T, 'a')); os.rename(mg, os.path.join(T, 'b'))
    out = sh('diff', '-ru', '-x', '__pycache__', 'a/miros', 'b/miros', cwd=T).stdout
    os.rename(os.path.join(T, 'a'), os.path.join(T, 'cur')); shutil.rmtree(os.path.join(T, 'b'))
    if not out.strip():
      print('EMPTY-AFTER-MERGE (the change is now part of the repository?)', name); continue
    open(p, 'w').write(out)
    print('rebased', name)
finally:
  shutil.rmtree(T, ignore_errors=True)
