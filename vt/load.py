"""Import miros from the tree under test.

MIROS_ROOT (default /repo) is put first on sys.path so that the *current
working tree* is what runs (there is no build step, nothing cached).  The
self-test points MIROS_ROOT at a mutated scratch copy.
"""
import os
import sys

ROOT = os.path.realpath(os.environ.get('MIROS_ROOT', '/repo'))
VERIF = os.path.dirname(os.path.dirname(os.path.realpath(__file__)))


class WrongTree(Exception):
  pass


def setup():
  sys.dont_write_bytecode = True
  for m in [m for m in sys.modules if m == 'miros' or m.startswith('miros.')]:
    del sys.modules[m]
  if ROOT in sys.path:
    sys.path.remove(ROOT)
  sys.path.insert(0, ROOT)
  import miros  # noqa
  got = os.path.realpath(os.path.dirname(os.path.dirname(miros.__file__)))
  if got != ROOT:
    raise WrongTree("miros imported from %s, expected %s" % (got, ROOT))
  return miros
