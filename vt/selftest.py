"""Mutation self-test of the monitors (DESIGN.md 2.6).

mutants/index.json lists patches (relative to the repository root) with the
property each one breaks.  Every patch is applied to a scratch copy of
<repo>/miros outside /repo and /verif, the property's check is run against it
with MIROS_ROOT pointing at the copy, and exit status 1 + a VIOLATION line is
required.  The scratch copy is removed afterwards.

  python -m vt.selftest [--tier quick] [--only C01] [--jobs 4] [name ...]
"""
import argparse
import concurrent.futures as cf
import json
import os
import shutil
import subprocess
import sys
import tempfile
import time

from vt import load

VERIF = load.VERIF
REPO = os.path.realpath(os.environ.get('MIROS_REPO', '/repo'))


def run_one(m, tier, seed):
  tmp = tempfile.mkdtemp(prefix='vt-mut-')
  try:
    shutil.copytree(os.path.join(REPO, 'miros'), os.path.join(tmp, 'miros'),
                    ignore=shutil.ignore_patterns('__pycache__', '*.rst'))
    patch = os.path.join(VERIF, 'mutants', m['file'])
    r = subprocess.run(['patch', '-p1', '-s', '-i', patch], cwd=tmp, capture_output=True, text=True)
    if r.returncode != 0:
      return m, 'PATCH-FAILED', r.stdout + r.stderr, 0
    env = dict(os.environ, MIROS_ROOT=tmp, VERIF_SEED=str(seed))
    t0 = time.time()
    out = ''
    status = 'MISSED'
    for pid in m['properties']:
      r = subprocess.run([sys.executable, '-m', 'vt.cli', pid, '--tier', tier, '--no-evidence'],
                         cwd=VERIF, env=env, capture_output=True, text=True)
      out += r.stdout[-1500:] + r.stderr[-500:]
      if r.returncode == 1 and 'VIOLATION property=%s' % pid in r.stdout:
        status = 'CAUGHT by ' + pid
        break
      if r.returncode not in (0, 1):
        status = 'INCONCLUSIVE(%d)' % r.returncode
    return m, status, out, time.time() - t0
  finally:
    shutil.rmtree(tmp, ignore_errors=True)


def main():
  ap = argparse.ArgumentParser()
  ap.add_argument('--tier', default='quick')
  ap.add_argument('--seed', type=int, default=0)
  ap.add_argument('--only')
  ap.add_argument('--jobs', type=int, default=2)
  ap.add_argument('-v', action='store_true')
  ap.add_argument('names', nargs='*')
  a = ap.parse_args()
  with open(os.path.join(VERIF, 'mutants', 'index.json')) as f:
    idx = json.load(f)['mutants']
  if a.only:
    idx = [m for m in idx if a.only in m['properties']]
  if a.names:
    idx = [m for m in idx if any(n in m['file'] for n in a.names)]
  bad = 0
  results = []
  with cf.ThreadPoolExecutor(max_workers=a.jobs) as ex:
    for m, status, out, dt in ex.map(lambda m: run_one(m, a.tier, a.seed), idx):
      print('%-52s %-10s %-22s %5.1fs' % (m['file'], ','.join(m['properties']), status, dt))
      results.append({'file': m['file'], 'properties': m['properties'], 'what': m.get('what'), 'status': status, 'wall_s': round(dt, 1)})
      sys.stdout.flush()
      if not status.startswith('CAUGHT'):
        bad += 1
        if a.v or True:
          print('   ' + out.replace('\n', '\n   ')[-1200:])
  print('%d mutants, %d not caught' % (len(idx), bad))
  if not a.only and not a.names:
    with open(os.path.join(VERIF, 'mutants', 'last_selftest.json'), 'w') as f:
      json.dump({'tier': a.tier, 'seed': a.seed, 'results': results}, f, indent=1)
  return 1 if bad else 0


if __name__ == '__main__':
  sys.exit(main())
