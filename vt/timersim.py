"""Timed-source scenarios under detsched with virtual time (C10, C11, C12, C31)."""
import collections
import threading
import uuid as _uuid

import miros.activeobject as AO
import miros.hsm as H
from miros.event import signals, Event, return_status as RS
from vt import detsched as ds, aosim

PERIODS = [0.01, 0.05, 0.1, 1.0, 2.5]


def gen_sources(rng, nmax=4, names=('TICK_A', 'TICK_B', 'TICK_C'), times_max=6, allow_infinite=True, zero_period=False):
  out = []
  for i in range(rng.randint(1, nmax)):
    out.append({'i': i, 'sig': rng.choice(names), 'kind': rng.choice(['fifo', 'lifo']), 'period': rng.choice(PERIODS),
                'times': rng.randint(0 if allow_infinite else 1, times_max), 'deferred': rng.choice([True, False, None]),
                'start_delay': rng.choice([0.0, 0.0, 0.003, 0.2])})
    if rng.random() < 0.25:
      out[-1]['call_style'] = 'positional'      # period, times (and deferred) passed by position, in the documented order
    if out[-1]['times'] == 0 and rng.random() < 0.6:
      # the documented heart-beat form: the repeat count is left out (or passed as None) - it defaults to 0 = until cancelled
      out[-1]['omit_times'] = rng.choice(['omitted', 'None'])
    if zero_period and rng.random() < 0.02:
      # a LARGE repeat count (beyond CPython's small-integer cache), all postings at once or 1 ms apart
      out[-1]['times'] = rng.choice([257, 258, 300])
      out[-1]['period'] = rng.choice([0, 0.001])
    elif zero_period and rng.random() < 0.12:
      # an unusual but legal input: period 0 (all postings at the instant of the call); finite sources only
      out[-1]['period'] = rng.choice([0, 0.0])
      out[-1]['times'] = max(1, out[-1]['times'])
  return out


def expected_instants(src, t0, horizon):
  """ideal posting instants of a source started at t0 (deferred None = default True)"""
  p, n = src['period'], src['times']
  deferred = True if src['deferred'] is None else src['deferred']
  out = []
  k = 1 if deferred else 0
  while True:
    t = t0 + k * p
    if t > horizon + 1e-12:
      break
    out.append(t)
    k += 1
    if n and len(out) >= n:
      break
    if len(out) > 100000:
      break
  return out


class TimerRun:
  def __init__(self):
    self.hist = aosim.History()
    self.ids = {}          # src index -> returned id
    self.t0 = {}           # src index -> virtual time of the post call
    self.raised = {}       # src index -> exception repr
    self.marks = []        # (what, step, clock) harness marks: cancel call/return, stop call/return
    self.handler_calls = []


def make_state(run, actions, spied=True):
  """flat state; events named TICK_* are logged; 'DO' events carry a callable
  index into `actions` executed inside the handler (cancel / stop from inside)"""
  def st(chart, e):
    sig = e.signal
    if sig == signals.ENTRY_SIGNAL or sig == signals.INIT_SIGNAL or sig == signals.EXIT_SIGNAL:
      return RS.HANDLED
    if e.signal_name.startswith('TICK'):
      run.hist.handled.append((e.signal_name, e.payload, ds.S.clock))
      return RS.HANDLED
    if e.signal_name == 'DO':
      run.handler_calls.append(e.payload)
      actions[e.payload](chart)
      return RS.HANDLED
    chart.temp.fun = chart.top
    return RS.SUPER
  st.__name__ = 'timer_state'
  return H.spy_on(st) if spied else st


def start_source(ao, run, src):
  ev = Event(signal=src['sig'], payload=src['i'])
  src['event'] = ev
  post = ao.post_fifo if src['kind'] == 'fifo' else ao.post_lifo
  kw = {'period': src['period'], 'times': src['times']}
  if src.get('omit_times') == 'omitted' and src['times'] == 0:
    del kw['times']
  elif src.get('omit_times') == 'None' and src['times'] == 0:
    kw['times'] = None
  if src['deferred'] is not None:
    kw['deferred'] = src['deferred']
  run.t0[src['i']] = ds.S.clock
  args = ()
  if src.get('call_style') == 'positional' and 'times' in kw and kw['times'] is not None:
    # the documented parameter order, passed by position: post_fifo(e, period, times[, deferred])
    args = (kw.pop('period'), kw.pop('times')) + ((kw.pop('deferred'),) if 'deferred' in kw else ())
  try:
    run.ids[src['i']] = post(ev, *args, **kw)
  except Exception as ex:
    run.raised[src['i']] = ex
    return False
  return True


def postings(ao):
  """[(src index, op, step, clock)] from the linearised deque log"""
  out = []
  for (step, clock, who, did, op, item, ln) in aosim.deque_ops(ao):
    if op in ('append', 'appendleft') and getattr(item, 'signal_name', '').startswith('TICK'):
      out.append((item.payload, op, step, clock, who))
  return out


def rebuild_equal(rng, x):
  """an equal but not identical id / name, as if it came from text or a network"""
  if isinstance(x, _uuid.UUID):
    return _uuid.UUID(str(x)) if rng.random() < 0.5 else _uuid.UUID(bytes=x.bytes)
  if isinstance(x, str):
    r = rng.random()
    if r < 0.34:
      return ''.join(list(x))
    if r < 0.67:
      return x.encode('utf8').decode('utf8')
    import json
    return json.loads(json.dumps({'n': x}))['n']
  return x
