"""workload statements for C27 (real source lines: the descriptor reads its caller's source)"""


def inc(o, c):
  o.a += c


def dec(o, c):
  o.a -= c


def mul(o, c):
  o.a *= c


def setk(o, k):
  o.a = k


def rd(o, out):
  x = o.a
  out.append(x)


def inc_b(o, c):
  o.b += c


OPS = {'+=': inc, '-=': dec, '*=': mul, '=': setk, 'read': rd, 'b+=': inc_b}


def worker(o, plan, out):
  for op, arg in plan:
    if op == 'read':
      rd(o, out)
    else:
      OPS[op](o, arg)


# -- several instances (C29): each statement names its instance


def rd_i(objs, i, out):
  x = objs[i].a
  out.append((i, x))


def set_i(objs, i, k):
  objs[i].a = k


def inc_i(objs, i, c):
  objs[i].a += c


def worker_multi(objs, plan, out):
  for op, i, arg in plan:
    if op == 'read':
      rd_i(objs, i, out)
    elif op == '=':
      set_i(objs, i, arg)
    else:
      inc_i(objs, i, arg)
