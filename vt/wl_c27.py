"""workload statements for C27 (real source lines: the descriptor reads its caller's source)"""


def inc(o, c):
  o.a += c


def dec(o, c):
  o.a -= c


def mul(o, c):
  o.a *= c


def setk(o, k):
  o.a = k


def rd(o, out):
  x = o.a
  out.append(x)


def inc_b(o, c):
  o.b += c


def shl(o, c):
  o.a <<= c


def shr(o, c):
  o.a >>= c


def fdiv(o, c):
  o.a //= c


def mod(o, c):
  o.a %= c


def bor(o, c):
  o.a |= c


def band(o, c):
  o.a &= c


def bxor(o, c):
  o.a ^= c


OPS = {'+=': inc, '-=': dec, '*=': mul, '=': setk, 'read': rd, 'b+=': inc_b,
       '<<=': shl, '>>=': shr, '//=': fdiv, '%=': mod, '|=': bor, '&=': band, '^=': bxor}
AUG_FUNCS = ('inc', 'dec', 'mul', 'inc_b', 'shl', 'shr', 'fdiv', 'mod', 'bor', 'band', 'bxor')

import operator as _op
APPLY = {'+=': _op.add, '-=': _op.sub, '*=': _op.mul, '<<=': _op.lshift, '>>=': _op.rshift, '//=': _op.floordiv, '%=': _op.mod,
         '|=': _op.or_, '&=': _op.and_, '^=': _op.xor}
ARG = {'+=': (1, 9), '-=': (1, 9), '*=': (2, 3), '=': (10, 99), 'b+=': (1, 9), '<<=': (1, 2), '>>=': (1, 2), '//=': (2, 3), '%=': (5, 9),
       '|=': (1, 15), '&=': (1, 15), '^=': (1, 15)}


def gen_op(rng):
  """(operator, argument): every augmented-assignment operator of integers, plain assignment, plain read, and += on a second attribute"""
  op = rng.choice(['+=', '+=', '-=', '*=', '=', '=', 'read', 'b+=', '<<=', '>>=', '//=', '%=', '|=', '&=', '^='])
  return (op, None if op == 'read' else rng.randint(*ARG[op]))


def worker(o, plan, out):
  for op, arg in plan:
    if op == 'read':
      rd(o, out)
    else:
      OPS[op](o, arg)


# -- several instances (C29): each statement names its instance


def rd_i(objs, i, out):
  x = objs[i].a
  out.append((i, x))


def set_i(objs, i, k):
  objs[i].a = k


def inc_i(objs, i, c):
  objs[i].a += c


def worker_multi(objs, plan, out):
  for op, i, arg in plan:
    if op == 'read':
      rd_i(objs, i, out)
    elif op == '=':
      set_i(objs, i, arg)
    else:
      inc_i(objs, i, arg)
