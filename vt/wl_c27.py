"""workload statements for C27 (real source lines: the descriptor reads its caller's source)"""


def inc(o, c):
  o.a += c


def dec(o, c):
  o.a -= c


def mul(o, c):
  o.a *= c


def setk(o, k):
  o.a = k


def rd(o, out):
  x = o.a
  out.append(x)


def inc_b(o, c):
  o.b += c


OPS = {'+=': inc, '-=': dec, '*=': mul, '=': setk, 'read': rd, 'b+=': inc_b}


def worker(o, plan, out):
  for op, arg in plan:
    if op == 'read':
      rd(o, out)
    else:
      OPS[op](o, arg)
