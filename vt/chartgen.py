"""chartgen -- random statecharts, builders, ground-truth logs, reference model.

A *spec* is plain JSON-serialisable data (so it can go into a replay file):

  n        number of states (indices 0..n-1; a parent index is always smaller)
  parent   parent[i] is an index or None (child of top)
  init     init[i] is None or a strict descendant of i (any number of levels)
  clauses  clauses[i] = [has_entry, has_exit, has_init]
  names    state names (function __name__)
  sigs     user signal names the chart reacts to (plus signals nobody answers)
  react    {"i:SIG": {"k": "H"|"T"|"G", "t": target, "m": modulus, "acts": [...]}}
             H  handle internally
             T  transition to t
             G  guard: a per-chart counter is incremented; when counter % m == 0
                the reaction fires (transition to t, or handled when t is None),
                otherwise the state declines (returns UNHANDLED)
  acts     {"i:entry"|"i:exit"|"i:init": [...]} side actions of those clauses
           a side action is ["post_fifo", SIG] | ["post_lifo", SIG] | ["defer"] |
           ["recall"] | ["scribble", text]

The reference model below interprets the *statements* of C01-C03 over the spec
tree with parent pointers and ancestor sets; it shares nothing with Samek's
tpath algorithm in miros/hsm.py.
"""
import functools

from miros.event import signals, Event, return_status as RS
from miros.hsm import spy_on

ENTRY, EXIT, INIT = signals.ENTRY_SIGNAL, signals.EXIT_SIGNAL, signals.INIT_SIGNAL


class Budget(BaseException):
  """step budget exceeded (a hang made observable)"""


# ---------------------------------------------------------------------------
# generation

SHAPES = ('rand', 'chain', 'bushy', 'two', 'comb', 'flat')


def gen_tree(rng, n, shape):
  parent = [None] * n
  for i in range(1, n):
    if shape == 'chain':
      parent[i] = i - 1 if rng.random() < 0.9 else rng.randrange(i)
    elif shape == 'bushy':
      parent[i] = rng.choice([None] + list(range(max(0, i - 3), i))) if rng.random() < 0.5 else rng.randrange(i)
    elif shape == 'two':
      parent[i] = i - 2 if i >= 2 else None
      if i >= 2 and rng.random() < 0.1:
        parent[i] = rng.randrange(i)
    elif shape == 'comb':
      # a spine 0-2-4-.. with a leaf hanging off every spine node
      parent[i] = (i - 2 if i >= 2 else None) if i % 2 == 0 else i - 1
    elif shape == 'flat':
      parent[i] = None if rng.random() < 0.7 else rng.randrange(i)
    else:
      parent[i] = rng.choice([None] + list(range(i))) if rng.random() < 0.3 else rng.randrange(i)
  return parent


def children_of(parent):
  kids = {i: [] for i in range(len(parent))}
  for i, p in enumerate(parent):
    if p is not None:
      kids[p].append(i)
  return kids


def descendants(kids, i):
  out, st = [], list(kids[i])
  while st:
    x = st.pop()
    out.append(x)
    st.extend(kids[x])
  return out


def depth_of(parent, i):
  d = 0
  while parent[i] is not None:
    i = parent[i]
    d += 1
  return d


NAME_STYLES = ('plain', 'plain', 'plain', 'long', 'spyish', 'mixed')


def gen_names(rng, n, style):
  out = []
  for i in range(n):
    if style == 'plain':
      out.append('s%d' % i)
    elif style == 'long':
      out.append('state_%d_%s' % (i, 'x' * rng.randint(10, 60)))
    elif style == 'spyish':
      out.append(rng.choice(['spy_on_%d', 'st%d_spy_on', 'a%d_spy_on_b']) % i)
    else:
      out.append(rng.choice(['s%d', 'S_%d', 'outer_inner_%d', 'st%d_', '_p%d']) % i)
  return out


def gen_spec(rng, nmax=12, shape=None, nsig=None, side_acts=False, p_init=0.5,
             name_style='plain', p_clause=0.85, guards=True, decline_pre=False, clause_queries=False):
  n = rng.randint(1, nmax)
  shape = shape or rng.choice(SHAPES)
  parent = gen_tree(rng, n, shape)
  kids = children_of(parent)
  init = [None] * n
  for i in range(n):
    d = descendants(kids, i)
    if d and rng.random() < p_init:
      # prefer deep targets now and then (multi-level init jumps)
      init[i] = max(rng.sample(d, min(len(d), 2)), key=lambda x: depth_of(parent, x)) if rng.random() < 0.4 else rng.choice(d)
  sigs = ['E%d' % k for k in range(nsig or rng.randint(2, 6))]
  react = {}
  for i in range(n):
    for sg in sigs:
      r = rng.random()
      if r < 0.45:
        continue
      elif r < 0.6:
        rec = {'k': 'H'}
      elif r < 0.9 or not guards:
        rec = {'k': 'T', 't': rng.randrange(n)}
      else:
        rec = {'k': 'G', 't': rng.choice([None, rng.randrange(n), rng.randrange(n)]), 'm': rng.randint(2, 3)}
        if decline_pre and rng.random() < 0.6:
          # what the guard's handler does before it declines: "transition, then veto" or a state query
          rec['pre'] = rng.choice([['trans', rng.randrange(n)], ['is_in', rng.randrange(n)], ['child_state', i]])
      if side_acts and rng.random() < 0.35:
        rec['acts'] = gen_acts(rng, sigs)
      react['%d:%s' % (i, sg)] = rec
  clauses = [[rng.random() < p_clause, rng.random() < p_clause, rng.random() < p_clause or init[i] is not None]
             for i in range(n)]
  acts = {}
  if side_acts:
    for i in range(n):
      for ci, cn in enumerate(('entry', 'exit', 'init')):
        if clauses[i][ci] and rng.random() < 0.15:
          acts['%d:%s' % (i, cn)] = gen_acts(rng, sigs, allow_defer=False)
  spec = {'n': n, 'parent': parent, 'init': init, 'clauses': clauses, 'sigs': sigs + ['ZZ'],
          'react': react, 'acts': acts, 'names': gen_names(rng, n, name_style), 'shape': shape}
  if clause_queries:
    # entry / exit / init actions that ask is_in / child_state (the IS_IN / history idioms): read-only queries made by a
    # handler in the middle of a step
    q = {}
    for i in range(n):
      for ci, cn in enumerate(('entry', 'exit', 'init')):
        if clauses[i][ci] and rng.random() < 0.2:
          q['%d:%s' % (i, cn)] = [[rng.choice(['is_in', 'is_in', 'child_state']), rng.randrange(n)] for _ in range(rng.randint(1, 2))]
    spec['qacts'] = q
    # ... and reaction handlers (hooks, transitions) that ask is_in / child_state / current_state before they answer
    for key in sorted(react):
      rec = react[key]
      if rec['k'] in ('H', 'T') and rng.random() < 0.25:
        rec['q'] = [[rng.choice(['is_in', 'child_state', 'current_state']), rng.randrange(n)] for _ in range(rng.randint(1, 2))]
  return spec


def gen_acts(rng, sigs, allow_defer=True):
  out = []
  for _ in range(rng.randint(1, 2)):
    r = rng.random()
    if r < 0.3:
      out.append(['post_fifo', rng.choice(sigs)])
    elif r < 0.55:
      out.append(['post_lifo', rng.choice(sigs)])
    elif r < 0.7 and allow_defer:
      out.append(['defer'])
    elif r < 0.85:
      out.append(['recall'])
    else:
      out.append(['scribble', 'note %d' % rng.randrange(1000)])
  return out


def gen_script(rng, spec, length, p_unknown=0.08):
  sigs = spec['sigs'][:-1]
  out = []
  for _ in range(length):
    out.append('ZZ' if rng.random() < p_unknown else rng.choice(sigs))
  return out


def anc(spec, x):
  """x, parent(x), ... up to a child of top"""
  r = []
  while x is not None:
    r.append(x)
    x = spec['parent'][x]
  return r


def topo_class(spec, S, T):
  """which of trans_'s topology branches (a-h) a transition S->T belongs to"""
  P = spec['parent']
  if S == T:
    return 'a'
  if P[T] == S:
    return 'b'
  if P[S] == P[T]:
    return 'c'
  if P[S] == T:
    return 'd'
  aT, aS = anc(spec, T), anc(spec, S)
  if S in aT:
    return 'e'
  if T in aS:
    return 'h'
  if P[S] is None or P[S] in aT:
    return 'f'
  return 'g'


# ---------------------------------------------------------------------------
# ground-truth logging closures

def foreign_decorator(fn):
  """a user's own functools.wraps-style decorator (timing, logging ...): not spy_on, changes nothing"""
  @functools.wraps(fn)
  def passthrough(chart, e):
    return fn(chart, e)
  return passthrough


class Run:
  """Builds state functions for a spec.  Ground truth is logged *inside* the
  undecorated function (below any spy_on wrapper):

    inv   one record per invocation  (state name, signal name, returned status)
    log   one record per action: ('entry'|'exit'|'init', name),
          ('offer', name, SIG) for a user signal reaching a state,
          ('act', kind, arg) for side actions, ('guard', name, SIG, fired)
  """

  def __init__(self, spec, spied=False, budget=None, fault=None, marks=None, foreign_deco=False, spied_mask=None):
    self.spec = spec
    self.foreign_deco = foreign_deco
    self.spied = spied
    self.log, self.inv, self.calls_log = [], [], []
    self.marks = marks          # optional shared list for act markers (spy oracle)
    self.gcount = 0
    self.queries_in_actions = 0
    self.calls = 0
    self.posts_left = 40        # bounds the fan-out of handler-made posts
    self.budget = budget or (200 * spec['n'] * (2 + max(depth_of(spec['parent'], i) for i in range(spec['n']))) + 2000)
    self.fault = fault          # {'kind':..., 'state': i, ...} for C24
    self.component = None       # another chart that 'dispatch_component' acts hand events to
    self.names = spec['names']
    self.raw = [None] * spec['n']
    self.fns = [None] * spec['n']
    for i in range(spec['n']):
      self.raw[i] = self._mk(i)
      # foreign_deco: False / True ('wraps': a user's decorator on an un-spied handler) / 'spy-over-wraps' (spy_on stacked on
      # the user's decorator) / 'wraps-twice' (two user decorators stacked)
      if foreign_deco == 'spy-over-wraps':
        self.fns[i] = spy_on(foreign_decorator(self.raw[i]))
      elif foreign_deco == 'wraps-twice':
        self.fns[i] = foreign_decorator(foreign_decorator(self.raw[i]))
      elif spied_mask is not None:
        # MIXED decoration: some states of the chart carry spy_on, the others are plain functions
        self.fns[i] = spy_on(self.raw[i]) if spied_mask[i] else self.raw[i]
      else:
        self.fns[i] = spy_on(self.raw[i]) if spied else (foreign_decorator(self.raw[i]) if foreign_deco else self.raw[i])
    self.stacked = foreign_deco in ('spy-over-wraps', 'wraps-twice')
    if foreign_deco == 'spy-over-wraps':
      self.spied = True

  def is_handler_of(self, fn, i):
    """fn is state i's handler: the state function or the function it decorates"""
    if self.stacked:
      # two decorators: the state function is the outer wrapper and 'the function it decorates' is the inner wrapper - the raw
      # function at the bottom of the stack is neither
      return fn is self.fns[i] or fn is self.fns[i].__wrapped__
    return fn is self.raw[i] or fn is self.fns[i] or getattr(fn, '__wrapped__', None) is self.raw[i]

  def tick(self):
    self.calls += 1
    if self.calls > self.budget:
      raise Budget()

  def reset_logs(self):
    del self.log[:]
    del self.inv[:]
    del self.calls_log[:]
    self.calls = 0              # the step budget is per step

  def do_queries(self, chart, key):
    """read-only state queries made by an entry / exit / init action"""
    for q, x in (self.spec.get('qacts') or {}).get(key, ()):
      self.queries_in_actions += 1
      try:
        getattr(chart, q)(self.fns[x])
      except Budget:
        raise
      except Exception:
        pass                  # child_state of a state that is off the active path fails by contract

  def do_acts(self, chart, e, acts):
    for a in acts or ():
      k = a[0]
      if k in ('post_fifo', 'post_lifo', 'defer'):
        if self.posts_left <= 0:
          continue
        self.posts_left -= 1
      if k == 'post_fifo':
        ev = Event(signal=a[1])
        self.log.append(('act', 'post_fifo', a[1]))
        chart.post_fifo(ev)
        self.calls_log.append(('mark', 'POST_FIFO:' + a[1]))
      elif k == 'post_lifo':
        ev = Event(signal=a[1])
        self.log.append(('act', 'post_lifo', a[1]))
        chart.post_lifo(ev)
        self.calls_log.append(('mark', 'POST_LIFO:' + a[1]))
      elif k == 'defer':
        self.log.append(('act', 'defer', e.signal_name))
        chart.defer(e)
        self.calls_log.append(('mark', 'POST_DEFERRED:' + e.signal_name))
      elif k == 'recall':
        r = chart.recall()
        self.log.append(('act', 'recall', None if r is None else r.signal_name))
        if r is not None:
          self.calls_log.append(('mark', 'RECALL:' + r.signal_name))
          self.calls_log.append(('mark', 'POST_FIFO:' + r.signal_name))
      elif k == 'scribble':
        self.log.append(('act', 'scribble', a[1]))
        chart.scribble(a[1])
        self.calls_log.append(('mark', a[1]))
      elif k == 'dispatch_component':
        # the handler hands an event to ANOTHER chart (an orthogonal component owned by this one) and lets it run to completion
        self.log.append(('act', 'dispatch_component', a[1]))
        self.component.dispatch(Event(signal=a[1]))
      elif k == 'clear_spy':
        # the handler empties the FULL spy in the middle of its own step (the step's own lines are not part of it yet)
        if hasattr(chart, 'clear_spy'):
          self.log.append(('act', 'clear_spy', None))
          chart.clear_spy()

  def _mk(self, i):
    sp = self.spec
    name = sp['names'][i]
    has_en, has_ex, has_in = sp['clauses'][i]
    user = set(sp['sigs'])
    fault = self.fault if (self.fault and self.fault.get('state') == i) else None

    def st(chart, e):
      self.tick()
      sig, sn = e.signal, e.signal_name
      self.calls_log.append(('call', name, sn))

      def ret(status):
        self.inv.append((name, sn, status))
        self.calls_log.append(('ret', name, sn, status))
        return status
      if fault is not None:
        fk = fault['kind']
        if fk == 'none_always':
          return ret(None)         # a handler that never returns a status (forgotten return)
        if fk == 'none_on_user' and sn in user:
          return ret(None)
        if fk == 'none_on_exit' and sig == EXIT:
          return ret(None)
        if fk == 'none_on_super' and sig == signals.SEARCH_FOR_SUPER_SIGNAL:
          return ret(None)
      if sig == ENTRY and has_en:
        self.log.append(('entry', name))
        self.do_queries(chart, '%d:entry' % i)
        self.do_acts(chart, e, sp['acts'].get('%d:entry' % i))
        return ret(RS.HANDLED)
      if sig == EXIT and has_ex:
        self.log.append(('exit', name))
        self.do_queries(chart, '%d:exit' % i)
        self.do_acts(chart, e, sp['acts'].get('%d:exit' % i))
        return ret(RS.HANDLED)
      if sig == INIT and has_in:
        self.log.append(('init', name))
        self.do_queries(chart, '%d:init' % i)
        self.do_acts(chart, e, sp['acts'].get('%d:init' % i))
        tgt = sp['init'][i]
        if fault is not None and fault['kind'] == 'bad_init':
          tgt = fault['target']
        if tgt is not None:
          return ret(chart.trans(self.fns[tgt]))
        return ret(RS.HANDLED)
      if sn in user:
        self.log.append(('offer', name, sn))
        r = sp['react'].get('%d:%s' % (i, sn))
        if r is not None:
          k = r['k']
          if k == 'G':
            self.gcount += 1
            fired = self.gcount % r['m'] == 0
            self.log.append(('guard', name, sn, fired))
            pre = r.get('pre')
            if pre is not None:
              # user code that touches the search pointer before it decides
              if pre[0] == 'trans' and not fired:
                chart.trans(self.fns[pre[1]])
              elif pre[0] == 'is_in':
                chart.is_in(self.fns[pre[1]])
              elif pre[0] == 'child_state' and chart.state.fun == self.fns[i]:
                chart.child_state(self.fns[pre[1]])
            if not fired:
              return ret(RS.UNHANDLED)
          for q, x in r.get('q') or ():
            # a reaction handler that asks where the chart is before it answers
            self.queries_in_actions += 1
            try:
              if q == 'current_state':
                if hasattr(chart, 'current_state'):
                  chart.current_state()
              else:
                getattr(chart, q)(self.fns[x])
            except Budget:
              raise
            except Exception:
              pass                # child_state of a state that is off the active path fails by contract
          self.do_acts(chart, e, r.get('acts'))
          if k == 'H' or r.get('t') is None:
            return ret(RS.HANDLED)
          return ret(chart.trans(self.fns[r['t']]))
      p = sp['parent'][i]
      chart.temp.fun = self.fns[p] if p is not None else chart.top
      return ret(RS.SUPER)
    st.__name__ = name
    st.__qualname__ = name
    return st


# ---------------------------------------------------------------------------
# reference model (statements of C01-C03)

class Model:
  def __init__(self, spec):
    self.spec = spec
    self.cur = None
    self.gcount = 0
    self.touched = []      # states entered or asked for their init by the last start/dispatch

  def _name(self, i):
    return self.spec['names'][i]

  def enter_chain(self, frm_excl, to):
    """states from just below frm_excl (None = top) inward down to `to`"""
    path, x = [], to
    while x != frm_excl:
      path.append(x)
      x = self.spec['parent'][x]
    path.reverse()
    return path

  def _enter(self, x, out):
    self.touched.append(x)
    if self.spec['clauses'][x][0]:
      out.append(('entry', self._name(x)))

  def _exit(self, x, out):
    if self.spec['clauses'][x][1]:
      out.append(('exit', self._name(x)))

  def drill(self, t, out):
    sp = self.spec
    while True:
      self.touched.append(t)
      if sp['clauses'][t][2]:
        out.append(('init', self._name(t)))
      if sp['init'][t] is None or not sp['clauses'][t][2]:
        return t
      for x in self.enter_chain(t, sp['init'][t]):
        self._enter(x, out)
      t = sp['init'][t]

  def start(self, s):
    out = []
    self.touched = []
    for x in self.enter_chain(None, s):
      self._enter(x, out)
    self.cur = self.drill(s, out)
    return out

  def dispatch(self, sn):
    """returns (expected action log incl. offers and guards, kind, S, T)"""
    sp = self.spec
    self.touched = []
    out, s, T, kind = [], self.cur, None, 'ignored'
    known = sn in sp['sigs']
    while s is not None:
      if known:
        out.append(('offer', self._name(s), sn))
      r = sp['react'].get('%d:%s' % (s, sn))
      if r is None:
        s = sp['parent'][s]
        continue
      if r['k'] == 'G':
        self.gcount += 1
        fired = self.gcount % r['m'] == 0
        out.append(('guard', self._name(s), sn, fired))
        if not fired:
          s = sp['parent'][s]
          continue
      if r['k'] == 'H' or r.get('t') is None:
        kind = 'handled'
      else:
        kind, T = 'tran', r['t']
      break
    if kind != 'tran':
      return out, kind, s, None
    S = s
    x = self.cur
    while x != S:
      self._exit(x, out)
      x = sp['parent'][x]
    ancS, ancT = anc(sp, S), anc(sp, T)
    if S == T:
      self._exit(S, out)
      L = sp['parent'][S]
    elif S in ancT:
      L = S
    else:
      L = None
      for a in ancS:
        if a in ancT:
          L = a
          break
      x = S
      while x != L:
        self._exit(x, out)
        x = sp['parent'][x]
    if T != L:
      for x in self.enter_chain(L, T):
        self._enter(x, out)
    self.cur = self.drill(T, out)
    return out, kind, S, T


def strip_acts(log):
  """action log without side-action records (the model does not predict them)"""
  return [r for r in log if r[0] != 'act']


# ---------------------------------------------------------------------------
# hosts

def counted_host(base, run):
  """subclass of a miros host whose top() also consumes the step budget"""
  class Counted(base):
    def top(self, *args):
      run.tick()
      return base.top(self, *args)
  Counted.__name__ = base.__name__
  return Counted
