"""detsched -- deterministic cooperative scheduling of the real miros threads.

All threads are real threading.Threads but only one runs at a time: each
managed thread owns a semaphore; at a *yield point* the running thread asks the
scheduler (inline) which enabled thread goes next and hands over.  Yield points
are (1) line events and (2) opcode events (sys.settrace) in the configured
focus files, and (3) every call of a cooperative shim (Thread, Queue,
PriorityQueue, time, Lock, RLock substituted into the miros module globals).
Blocking is cooperative (a predicate the scheduler evaluates), time is virtual.

See DESIGN.md section 2.3 for the rationale and the legitimacy argument.
"""
import collections
import os
import queue as _q
import random
import sys
import threading
import time as _time

_real_Thread = threading.Thread
_real_sleep = _time.sleep


class Abort(BaseException):
  """unwinds a managed thread when the scenario is over"""


class Verdict(Exception):
  """deadlock / step-budget, raised in the harness (main) thread"""
  def __init__(self, kind, info=None):
    Exception.__init__(self, kind)
    self.kind, self.info = kind, info


class TS:
  def __init__(self, name, idx):
    self.name, self.idx = name, idx
    self.sem = threading.Semaphore(0)
    self.status = 'run'        # run | blocked | finished | quiesce
    self.pred = self.desc = self.wake = None
    self.exc = None
    self.atomic = 0
    self.prio = 0
    self.role = None
    self.pyname = None
    self.thread = None
    self.nyield = 0
    self.last_loc = None


OVERRIDE = None             # {'script': [...]}: every Sched created meanwhile follows this explicit choice list (vt/sysx.py)
LAST = None                 # the scheduler created last (read back by the systematic explorer)


class Sched:
  def __init__(self, seed=0, policy='random', p_switch=0.25, p_time=0.0, max_steps=200000,
               horizon=1e9, pct_depth=3, pct_len=400, rr_after=None):
    global LAST
    LAST = self
    if OVERRIDE is not None:
      # systematic exploration: the schedule is an input, nothing about it is drawn at random
      policy, p_time, rr_after = 'script', 0.0, None
    self.rng = random.Random(seed)
    self.policy, self.p_switch, self.p_time = policy, p_switch, p_time
    self.max_steps, self.horizon = max_steps, horizon
    self.threads, self.by_ident = [], {}
    self.clock, self.steps, self.switches = 0.0, 0, 0
    self.aborting, self.verdict, self.verdict_info = False, None, None
    self.rr_i = 0
    self.rr_after = rr_after          # step index after which the policy becomes fair round-robin
    self.trail = []                   # (from, to, loc) of every context switch
    self.script, self.decisions = [], []   # policy 'script': explicit choice list (exhaustive sweeps); decisions: (choice, options, caller could have continued)
    if OVERRIDE is not None:
      self.script = list(OVERRIDE['script'])
    self.locs = collections.Counter()
    self.windows = collections.Counter()
    self.pct_changes = sorted(self.rng.randrange(1, max(2, pct_len)) for _ in range(max(0, pct_depth - 1))) if policy == 'pct' else []
    self.main = self._new('main')
    self.main.role = 'main'
    self.by_ident[threading.get_ident()] = self.main
    self.hooks = {}                   # loc-name -> callable(sched, ts): observation hooks at yield points
    self.on_thread_start = None       # callable(sched, ts) run when a managed thread is started
    # lasso (livelock cycle) detection: when state_fn is set, the abstract global state is hashed at
    # every yield point; a repeated state with a fair pick sequence in between is replayed, and
    # lasso_confirm identical repetitions are a 'livelock-cycle' verdict
    self.state_fn = None
    self.seen_states = {}
    self.picks = []
    self.lasso = None
    self.lasso_confirm = 12
    self.lasso_rejected = set()
    self.lasso_stats = collections.Counter()
    self.delay = None                 # (thread role/name, loc predicate, remaining steps) single-delay injection
    # injected virtual delay: {'match': f(ts, loc), 'visit': k, 'sleep': seconds}: the k-th time a thread reaches a matching
    # yield point it sleeps that long in VIRTUAL time there (a delay at a hook that outlasts clock advances; the thread keeps
    # whatever locks it holds, exactly as a descheduled OS thread would)
    self.inject = None
    self.waypoints, self.wp_i = [], 0   # policy 'directed'
    self.fail_thread_start, self.thread_start_failures = None, 0   # fault injection: Thread.start of the thread with this target name raises once

  def _new(self, name):
    t = TS(name, len(self.threads))
    t.prio = self.rng.random()
    self.threads.append(t)
    return t

  def me(self):
    return self.by_ident.get(threading.get_ident())

  def enabled(self, t):
    if t.status == 'run':
      return True
    if t.status == 'blocked':
      if t.wake is not None and self.clock >= t.wake:
        return True
      if t.pred is None:
        return False
      try:
        return bool(t.pred())
      except Exception:
        return True
    return False

  # -- choice
  def _pick(self, me, cands, me_enabled):
    L = self.lasso
    if L is not None:
      want = L['cycle'][L['pos']]
      t = next((x for x in cands + ([me] if me_enabled else []) if x.idx == want), None)
      if t is None:
        self._lasso_abandon('pick-not-enabled')
      else:
        L['pos'] += 1
        if L['pos'] == len(L['cycle']):
          L['pos'] = 0
          L['check'] = True
        self.picks.append(t.idx)
        return t
    t = self._pick_policy(me, cands, me_enabled)
    if self.state_fn is not None and self.policy != 'script':
      self.picks.append(t.idx)
    return t

  def _lasso_abandon(self, why):
    self.lasso_stats['abandoned:' + why] += 1
    self.lasso_rejected.add(self.lasso['key'])
    self.lasso = None

  def _state_key(self):
    return (self.clock, self.state_fn(), tuple((t.status, t.last_loc, t.desc if isinstance(t.desc, str) else None) for t in self.threads))

  def _lasso_step(self, me):
    key = self._state_key()
    L = self.lasso
    if L is not None:
      if L['check']:
        L['check'] = False
        if key == L['key']:
          L['confirmed'] += 1
          if L['confirmed'] >= self.lasso_confirm:
            self.lasso_stats['confirmed'] += 1
            names = {t.idx: (t.role or t.name) for t in self.threads}
            self.verdict_info = {'cycle_threads': [names[i] for i in L['cycle']][:60], 'cycle_len': len(L['cycle']), 'repetitions': L['confirmed'],
                                 'locations': [str(l) for l in L['locs']][:60], 'blocked': self.blocked_report(), 'steps': self.steps}
            self.fail('livelock-cycle')
        else:
          self._lasso_abandon('state-differs')
      if self.lasso is not None:
        if len(L['locs']) < 200 and L['confirmed'] == 0:
          L['locs'].append((me.role or me.name, me.last_loc))
        return
    prev = self.seen_states.get(key)
    now = len(self.picks)
    if prev is None or key in self.lasso_rejected:
      self.seen_states[key] = now
      return
    cycle = self.picks[prev:now]
    self.seen_states[key] = now
    if not cycle:
      return
    enabled_now = set(t.idx for t in self.threads if t.status in ('run', 'blocked') and self.enabled(t))
    if not enabled_now <= set(cycle):
      self.lasso_stats['unfair-repeat-ignored'] += 1
      return
    self.lasso_stats['candidates'] += 1
    self.lasso = {'key': key, 'cycle': cycle, 'pos': 0, 'check': False, 'confirmed': 0, 'locs': []}

  def _pick_policy(self, me, cands, me_enabled):
    """cands: enabled threads other than me"""
    pol = self.policy
    if self.rr_after is not None and self.steps >= self.rr_after:
      pol = 'rr'
    if pol == 'directed':
      # a DIRECTED schedule (regression witnesses for narrow windows): waypoints = [(selector(ts) -> bool, goal)], goal is
      # 'blocked', 'finished' or a predicate on the yield location; the selected thread runs until its goal, then the next
      # waypoint applies; when a waypoint cannot be served (thread not created yet / not runnable) and after the last one the
      # policy is fair round-robin
      while self.wp_i < len(self.waypoints):
        sel, goal = self.waypoints[self.wp_i]
        t = next((x for x in self.threads if sel(x)), None)
        if t is None:
          break
        if goal == 'finished':
          reached = t.status == 'finished'
        elif goal == 'blocked':
          reached = t.status == 'finished' or (t.status == 'blocked' and not self.enabled(t))
        else:
          reached = getattr(t, 'goal_wp', None) == self.wp_i
        if reached:
          self.wp_i += 1
          continue
        if t is me and me_enabled:
          return me
        if t in cands:
          return t
        break
      pol = 'rr'
    if pol == 'script':
      opts = ([me] if me_enabled else []) + sorted(cands, key=lambda t: t.idx)
      if len(opts) == 1:
        return opts[0]
      i = len(self.decisions)
      c = self.script[i] if i < len(self.script) else 0
      self.decisions.append((c, len(opts), bool(me_enabled)))
      return opts[min(c, len(opts) - 1)]
    if pol == 'rr':
      allc = sorted(cands + ([me] if me_enabled else []), key=lambda t: t.idx)
      self.rr_i += 1
      return allc[self.rr_i % len(allc)]
    if pol == 'pct':
      allc = cands + ([me] if me_enabled else [])
      if self.pct_changes and self.steps >= self.pct_changes[0]:
        self.pct_changes.pop(0)
        if me_enabled:
          me.prio = -self.steps      # lowest so far
      return max(allc, key=lambda t: t.prio)
    if me_enabled:
      if not cands or self.rng.random() >= self.p_switch:
        return me
      return self.rng.choice(cands)
    return self.rng.choice(cands)

  def choose(self, me, me_enabled):
    while True:
      cands = [t for t in self.threads if t is not me and t.status in ('run', 'blocked') and self.enabled(t)]
      d = self.delay
      if d is not None and d['active'] and d['left'] > 0:
        # single-delay injection: the parked thread is not eligible while anybody else can run
        others = [t for t in cands if t is not d['ts']]
        if me is d['ts']:
          if others:
            d['left'] -= 1
            return self._pick(me, others, False)
          d['left'] = 0
        elif others or me_enabled:
          if len(others) != len(cands):
            d['left'] -= 1
          cands = others
        else:
          d['left'] = 0
      sleepers = [t for t in self.threads if t.status == 'blocked' and t.wake is not None and t.wake > self.clock]
      if sleepers:
        nw = min(t.wake for t in sleepers)
        # a blocked caller whose own wake-up has just been reached counts as
        # runnable: the clock must not be advanced past it
        me_ready = (not me_enabled) and me.status == 'blocked' and self.enabled(me)
        idle = not cands and not me_enabled and not me_ready
        if (nw <= self.horizon or self.main.wake is not None) and (idle or (self.p_time and self.rng.random() < self.p_time)):
          self.clock = nw
          continue
      if me_enabled:
        return self._pick(me, cands, True)
      if cands:
        return self._pick(me, cands, False)
      if me.status == 'blocked' and self.enabled(me):
        return me
      q = [t for t in self.threads if t.status == 'quiesce']
      return q[0] if q else None

  def _switch(self, me, nxt, loc=None):
    self.switches += 1
    if len(self.trail) < 4000:
      self.trail.append((me.name, nxt.name, loc))
    nxt.sem.release()
    me.sem.acquire()
    if self.aborting:
      if me is not self.main:
        raise Abort()
      if self.verdict:
        raise Verdict(self.verdict, self.verdict_info)

  def yield_point(self, loc=None):
    me = self.me()
    if me is None or me.atomic:
      return
    if self.aborting:
      if me is not self.main:
        raise Abort()
      return
    self.steps += 1
    me.nyield += 1
    me.last_loc = loc
    if self.policy == 'directed' and self.wp_i < len(self.waypoints):
      sel, goal = self.waypoints[self.wp_i]
      if callable(goal) and sel(me) and goal(loc):
        me.goal_wp = self.wp_i
    if self.state_fn is not None and self.policy != 'script':
      self._lasso_step(me)
    if loc is not None:
      self.locs[loc] += 1
      h = self.hooks.get(loc if isinstance(loc, str) else loc[0])
      if h is not None:
        h(self, me, loc)
      d = self.delay
      if d is not None and not d['active'] and d['match'](me, loc):
        d['seen'] += 1
        if d['seen'] == d['visit']:
          d['active'], d['ts'] = True, me
    if self.steps > self.max_steps:
      self.fail('step-budget')
    inj = self.inject
    if inj is not None and not inj.get('done') and loc is not None and inj['match'](me, loc):
      inj['seen'] = inj.get('seen', 0) + 1
      if inj['seen'] == inj['visit']:
        inj['done'], inj['at'] = True, (loc, self.steps, self.clock)
        self.wait_until(None, 'injected-delay', wake=self.clock + inj['sleep'])
        return
    nxt = self.choose(me, True)
    if nxt is not me:
      self._switch(me, nxt, loc)

  def wait_until(self, pred, desc, wake=None):
    me = self.me()
    if me is None:
      # an unmanaged thread: poll for real (never a verdict)
      while not ((pred is not None and pred()) or (wake is not None and self.clock >= wake)):
        _real_sleep(0.0005)
      return
    while True:
      if self.aborting and me is not self.main:
        raise Abort()
      # ready when the predicate holds, or - for a timed wait - when the virtual deadline has passed
      if (pred is not None and pred()) or (wake is not None and self.clock >= wake):
        break
      me.status, me.pred, me.desc, me.wake = 'blocked', pred, desc, wake
      nxt = self.choose(me, False)
      if nxt is None:
        self.fail('deadlock')
      if nxt is me:
        continue
      self._switch(me, nxt, 'block:' + str(desc))
    me.status, me.pred, me.desc, me.wake = 'run', None, None, None

  def sleep(self, d):
    self.yield_point('sleep')
    self.wait_until(None, 'sleep', wake=self.clock + d)

  def quiesce(self):
    """main: run everything until nothing is enabled and no sleeper is due before the horizon"""
    me = self.me()
    assert me is self.main
    while not self.verdict:
      me.status = 'quiesce'
      nxt = self.choose(me, False)
      if nxt is me or nxt is None:
        break
      self._switch(me, nxt, 'quiesce')
    me.status = 'run'
    if self.verdict:
      raise Verdict(self.verdict, self.verdict_info)

  def blocked_report(self):
    return [(t.name, t.role, t.pyname, t.status, str(t.desc)) for t in self.threads if t.status == 'blocked']

  def fail(self, what):
    if not self.verdict:
      self.verdict = what
      info = {'blocked': self.blocked_report(), 'steps': self.steps, 'clock': self.clock}
      info.update(self.verdict_info or {})
      self.verdict_info = info
    self.aborting = True
    me = self.me()
    if me is self.main:
      raise Verdict(self.verdict, self.verdict_info)
    self.main.status = 'run'
    self.main.sem.release()
    raise Abort()

  def shutdown(self, join_timeout=2.0):
    """ends the scenario: every managed thread is released and unwinds with Abort"""
    self.aborting = True
    for t in self.threads:
      if t is not self.main and t.status != 'finished':
        t.sem.release()
    zombies = 0
    deadline = _time.time() + join_timeout
    for t in self.threads:
      if t.thread is not None:
        _real_Thread.join(t.thread, max(0.0, deadline - _time.time()))
        if _real_Thread.is_alive(t.thread):
          zombies += 1
    return zombies

  def signature(self):
    """hash material: the sequence of context switches projected on roles and locations"""
    return tuple((self._role(a), self._role(b), l if isinstance(l, str) else (l[0] if l else None)) for a, b, l in self.trail)

  def _role(self, name):
    for t in self.threads:
      if t.name == name:
        return t.role or name
    return name


S = None                    # the active scheduler
LINE_FILES, OP_FILES = set(), set()
LINE_FUNCS = {}             # filename -> set of function names traced at line granularity (absent = all)
OP_FUNCS = {}               # filename -> set of function names traced at opcode granularity (None = all)


def tracer(frame, event, arg):
  if event == 'call':
    fn = frame.f_code.co_filename
    ops = OP_FUNCS.get(fn)
    if fn in OP_FILES or (ops is not None and frame.f_code.co_name in ops):
      frame.f_trace_opcodes = True
      frame.f_trace_lines = False
      return op_tracer
    if fn in LINE_FILES:
      lf = LINE_FUNCS.get(fn)
      if lf is None or frame.f_code.co_name in lf:
        return line_tracer
  return None


def line_tracer(frame, event, arg):
  if event == 'line' and S is not None:
    S.yield_point((frame.f_code.co_name, frame.f_lineno))
  return line_tracer


def op_tracer(frame, event, arg):
  if event == 'opcode' and S is not None:
    S.yield_point((frame.f_code.co_name, 'op', frame.f_lasti))
  return op_tracer


def atomic_enter():
  me = S.me() if S is not None else None
  if me is not None:
    me.atomic += 1
  return me


def atomic_exit(me):
  if me is not None:
    me.atomic -= 1


class SThread(_real_Thread):
  def start(self):
    s = S
    if s is None:
      return _real_Thread.start(self)
    tgt0 = getattr(self, '_target', None)
    if s.fail_thread_start is not None and getattr(tgt0, '__name__', None) == s.fail_thread_start:
      # fault injection: the operating system refuses to start this thread (once)
      s.fail_thread_start = None
      s.thread_start_failures += 1
      raise RuntimeError("can't start new thread")
    self._ts = s._new('T%d' % len(s.threads))
    self._ts.pyname = str(self.name)
    self._ts.thread = self
    tgt = getattr(self, '_target', None)
    self._ts.role = getattr(tgt, '__name__', None) or type(self).__name__
    self._sched = s
    self.daemon = True
    if s.on_thread_start is not None:
      s.on_thread_start(s, self._ts)
    me = atomic_enter()
    try:
      _real_Thread.start(self)
    finally:
      atomic_exit(me)
    s.yield_point('Thread.start')

  def run(self):
    s, ts = self._sched, self._ts
    s.by_ident[threading.get_ident()] = ts
    ts.sem.acquire()
    try:
      if s.aborting:
        return
      sys.settrace(tracer)
      _real_Thread.run(self)
    except Abort:
      pass
    except BaseException as ex:
      ts.exc = ex
    finally:
      sys.settrace(None)
      ts.status = 'finished'
      if not s.aborting:
        nxt = s.choose(ts, False)
        if nxt is not None:
          nxt.sem.release()
        else:
          if not s.verdict:
            s.verdict = 'deadlock'
            s.verdict_info = {'blocked': s.blocked_report(), 'steps': s.steps, 'clock': s.clock}
          s.aborting = True
          s.main.sem.release()

  def join(self, timeout=None):
    s = getattr(self, '_sched', None)
    if s is None or S is not s:
      return _real_Thread.join(self, timeout)
    if self is threading.current_thread():
      raise RuntimeError("cannot join current thread")
    s.yield_point('Thread.join')
    s.wait_until(lambda: self._ts.status == 'finished', 'join ' + self._ts.name)

  def is_alive(self):
    ts = getattr(self, '_ts', None)
    if ts is None:
      return False
    return ts.status != 'finished'


class CoopMixin:
  def get(self, block=True, timeout=None):
    if S is None:
      return self._base.get(self, block, timeout)
    S.yield_point('Queue.get')
    if block:
      S.wait_until(lambda: self._qsize() > 0, 'Queue.get')
    me = atomic_enter()
    try:
      return self._base.get(self, False)
    finally:
      atomic_exit(me)

  def put(self, item, block=True, timeout=None):
    if S is None:
      return self._base.put(self, item, block, timeout)
    S.yield_point('Queue.put')
    if block and self.maxsize > 0:
      S.wait_until(lambda: self._qsize() < self.maxsize, 'Queue.put (full)')
    me = atomic_enter()
    try:
      return self._base.put(self, item, False)
    finally:
      atomic_exit(me)

  def get_nowait(self):
    return self.get(False)

  def put_nowait(self, item):
    return self.put(item, False)

  # qsize / full / empty: a yield point BEFORE the real call and one AFTER it has returned (the interpreter may switch threads
  # right after a call returns, before the caller uses the value: `qsize() < len(d)` can be split between its two reads)
  def qsize(self):
    if S is None:
      return self._base.qsize(self)
    S.yield_point('Queue.qsize')
    n = self._base.qsize(self)
    S.yield_point('Queue.qsize:returned')
    return n

  def full(self):
    if S is None:
      return self._base.full(self)
    S.yield_point('Queue.full')
    r = self._base.full(self)
    S.yield_point('Queue.full:returned')
    return r

  def empty(self):
    if S is None:
      return self._base.empty(self)
    S.yield_point('Queue.empty')
    r = self._base.empty(self)
    S.yield_point('Queue.empty:returned')
    return r

  def join(self):
    if S is None:
      return self._base.join(self)
    S.yield_point('Queue.join')
    S.wait_until(lambda: self.unfinished_tasks == 0, 'Queue.join')

  def task_done(self):
    me = atomic_enter()
    try:
      return self._base.task_done(self)
    finally:
      atomic_exit(me)


class SQueue(CoopMixin, _q.Queue):
  _base = _q.Queue


PQLOG = []


class SPriorityQueue(CoopMixin, _q.PriorityQueue):
  """cooperative + logs every put/get under the queue's own mutex"""
  _base = _q.PriorityQueue

  def _put(self, item):
    _q.PriorityQueue._put(self, item)
    PQLOG.append(('put', id(self), item, S.steps if S else 0))

  def _get(self):
    item = _q.PriorityQueue._get(self)
    PQLOG.append(('get', id(self), item, S.steps if S else 0))
    return item


class STime:
  """stands in for the `time` module inside miros.activeobject"""
  @staticmethod
  def sleep(d):
    if S is None:
      return _real_sleep(d)
    S.sleep(d)

  @staticmethod
  def time():
    return S.clock if S is not None else _time.time()

  monotonic = time
  perf_counter = time


OPLOG = []


class LogDeque(collections.deque):
  """a deque that records every mutating operation atomically with the operation"""
  def _log(self, op, item=None):
    s = S
    OPLOG.append((s.steps if s else 0, s.clock if s else 0.0, (s.me().name if s and s.me() else '?'), id(self), op, item, len(self)))

  def append(self, x):
    collections.deque.append(self, x)
    self._log('append', x)

  def appendleft(self, x):
    collections.deque.appendleft(self, x)
    self._log('appendleft', x)

  def popleft(self):
    x = collections.deque.popleft(self)
    self._log('popleft', x)
    return x

  def pop(self):
    x = collections.deque.pop(self)
    self._log('pop', x)
    return x

  def rotate(self, n=1):
    collections.deque.rotate(self, n)
    self._log('rotate', n)

  def clear(self):
    collections.deque.clear(self)
    self._log('clear')


class SLock:
  def __init__(self):
    self.owner = None

  def acquire(self, blocking=True, timeout=-1):
    S.yield_point('Lock.acquire')
    me = S.me()
    if not blocking:
      if self.owner is None:
        self.owner = me or True
        return True
      return False
    if timeout is not None and timeout >= 0:
      # a timed wait: in VIRTUAL time (returns False when the deadline passes first, as threading.Lock does)
      S.wait_until(lambda: self.owner is None, 'Lock.acquire(timeout)', wake=S.clock + timeout)
      if self.owner is not None:
        return False
    else:
      S.wait_until(lambda: self.owner is None, 'Lock.acquire')
    self.owner = me or True
    return True

  def release(self):
    if self.owner is None:
      raise RuntimeError('release unlocked lock')
    self.owner = None
    S.yield_point('Lock.release')

  def locked(self):
    return self.owner is not None

  def __enter__(self):
    self.acquire()
    return self

  def __exit__(self, *a):
    self.release()


class SRLock:
  def __init__(self):
    self.owner = None
    self.count = 0

  def acquire(self, blocking=True, timeout=-1):
    me = S.me()
    S.yield_point('RLock.acquire')
    if self.owner is me:
      self.count += 1
      return True
    if not blocking:
      if self.owner is None:
        self.owner, self.count = me, 1
        return True
      return False
    if timeout is not None and timeout >= 0:
      S.wait_until(lambda: self.owner is None, 'RLock.acquire(timeout)', wake=S.clock + timeout)
      if self.owner is not None:
        return False
    else:
      S.wait_until(lambda: self.owner is None, 'RLock.acquire')
    self.owner, self.count = me, 1
    return True

  def release(self):
    me = S.me()
    if self.owner is not me:
      raise RuntimeError("cannot release un-acquired lock")
    self.count -= 1
    if self.count == 0:
      self.owner = None
    S.yield_point('RLock.release')

  def _is_owned(self):
    return self.owner is S.me()

  def __enter__(self):
    self.acquire()
    return self

  def __exit__(self, *a):
    self.release()


def lock_factory():
  return SLock() if S is not None else threading.Lock()


def rlock_factory():
  return SRLock() if S is not None else threading.RLock()


SHIMS = {'Thread': SThread, 'Queue': SQueue, 'PriorityQueue': SPriorityQueue, 'time': STime,
         'Lock': lock_factory, 'RLock': rlock_factory}
_saved = []


def miros_modules():
  import miros.activeobject, miros.hsm, miros.event, miros.singleton, miros.thread_safe_attributes
  return [miros.activeobject, miros.hsm, miros.event, miros.singleton, miros.thread_safe_attributes]


def install(s, line_mods=(), op_mods=(), op_funcs=None, log_deque=True, line_funcs=None):
  """substitute the shims into the miros module globals and start tracing the
  calling (main) thread; fresh singletons are created so that their state (and
  any lock they hold) belongs to this scenario"""
  global S
  S = s
  import miros.activeobject as ao
  from miros.singleton import SingletonDecorator
  LINE_FILES.clear()
  OP_FILES.clear()
  OP_FUNCS.clear()
  LINE_FUNCS.clear()
  for m, names in (line_funcs or {}).items():
    LINE_FUNCS[m.__file__] = set(names)
  LINE_FILES.update(m.__file__ for m in line_mods)
  OP_FILES.update(m.__file__ for m in op_mods)
  for m, names in (op_funcs or {}).items():
    OP_FUNCS[m.__file__] = set(names)
  for m in miros_modules():
    for name, shim in SHIMS.items():
      if name in m.__dict__ and m.__dict__[name] is not shim:
        _saved.append((m, name, m.__dict__[name]))
        setattr(m, name, shim)
  if log_deque:
    _saved.append((ao, 'deque', ao.deque))
    ao.deque = LogDeque
  _saved.append((ao, 'ActiveFabric', ao.ActiveFabric))
  _saved.append((ao, 'FiberThreadEvent', ao.FiberThreadEvent))
  _saved.append((ao, 'InstrumentionWriter', ao.InstrumentionWriter))
  ao.FiberThreadEvent = SingletonDecorator(ao.SourceThreadEvent)
  ao.ActiveFabric = SingletonDecorator(ao.ActiveFabricSource)
  ao.InstrumentionWriter = SingletonDecorator(ao.InstrumenationWriterClass)
  del OPLOG[:]
  del PQLOG[:]
  sys.settrace(tracer)


def uninstall():
  global S
  sys.settrace(None)
  z = 0
  if S is not None:
    z = S.shutdown()
  S = None
  while _saved:
    m, name, val = _saved.pop()
    setattr(m, name, val)
  return z
