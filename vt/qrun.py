"""Driver for queued hosts (HsmWithQueues, ActiveObject): external posts, run
to quiescence one run-to-completion step at a time, one snapshot per step.
Serves C14, C15, C19, C20, C21, C23."""
import collections
import threading

from miros.event import signals, Event, return_status as RS
from miros.hsm import HsmWithQueues
from miros.activeobject import ActiveObject
from vt import chartgen as cg
from vt.hosts import Inconclusive, INNER


class QResult:
  def __init__(self):
    self.start = None
    self.steps = []
    self.error = None
    self.spy_full = None
    self.trace_records = None
    self.trace_text = None
    self.live_spy = []
    self.live_trace = []
    self.instrumented = None
    self.nqueries = 0
    self.trace_error = None
    self.restarts = []              # one snapshot per 'restart' operation (a further start_at of the same chart object)
    self.cur_after_queries = []     # (number of steps run so far, current_state() asked right after client queries)


def run(spec, start, ext_ops, cfg, pre_start_ops=(), max_steps=400, query_rng=None):
  res = QResult()
  run_ = cg.Run(spec, spied=cfg.get('spied', True), foreign_deco=cfg.get('deco') or False)
  res.run = run_
  host = cfg['host']
  sem = threading.Semaphore(0)
  # an external post is made "while the object is idle": post_* enqueues first and appends its POST_* spy marker afterwards,
  # in the posting thread, so the object's thread must not begin the step before the post call has returned (otherwise the
  # marker of the *previous* call interval lands inside the step's log - a race of the harness' real threads, not a step fact)
  gate = threading.Lock()
  is_ao = host == 'ao'

  def snapshot(chart, into):
    rec = {'log': list(run_.log), 'calls': list(run_.calls_log),
           'rest': getattr(chart, 'state_name', None), 'state_fn': getattr(chart, 'state_fn', None),
           'cur': chart.current_state(), 'qlen': len(chart.queue), 'dlen': len(chart.defer_queue),
           'spy_rtc': chart.spy_rtc() if chart.instrumented else None,
           'ntrace': len(chart.full.trace), 'nspy': len(chart.full.spy),
           'last_trace': (lambda t: (t.start_state, t.signal, t.end_state))(chart.full.trace[-1]) if len(chart.full.trace) else None}
    run_.reset_logs()
    into.append(rec)

  if is_ao:
    base = cg.counted_host(ActiveObject, run_)

    class SyncAO(base):
      def next_rtc(self):
        with gate:
          pass
        self._vt_busy = True
        try:
          return base.next_rtc(self)
        except BaseException as ex:
          self._vt_exc = ex
        finally:
          snapshot(self, res.steps)
          self._vt_busy = False
          sem.release()
    chart = SyncAO(name='ao_chart' if cfg.get('named', True) else None, instrumented=cfg.get('instrumented', True))
    chart._vt_exc = None
    chart._vt_busy = False
    if not cfg.get('instrumented', True):
      chart.instrumented = False       # the constructor of ActiveObject loses the flag (it lands in maxlen)
  else:
    chart = cg.counted_host(HsmWithQueues, run_)(instrumented=cfg.get('instrumented', True))
  chart.live_spy = cfg.get('live_spy', False)
  chart.live_trace = cfg.get('live_trace', False)
  chart.register_live_spy_callback(res.live_spy.append)
  chart.register_live_trace_callback(res.live_trace.append)
  try:
    if is_ao and cfg.get('pre_subscribe'):
      # the object subscribes BEFORE start_at: a SUBSCRIBE_META_SIGNAL event is posted lifo and is the first event it dispatches
      chart.subscribe(Event(signal='VT_PRE_SUB'), queue_type=cfg['pre_subscribe'])
    if is_ao and cfg.get('pre_publish'):
      # ... and / or publishes before start_at (a PUBLISH_META_SIGNAL event, posted lifo as well)
      chart.publish(Event(signal='VT_PRE_PUB'))
    for kind, sig in pre_start_ops:
      (chart.post_fifo if kind == 'fifo' else chart.post_lifo)(Event(signal=sig))
    st = []
    try:
      # an active object must not begin its first step before the start snapshot has been taken (its next_rtc passes the gate)
      with gate:
        chart.start_at(run_.fns[start])
        res.instrumented = chart.instrumented
        snapshot(chart, st)
        res.start = st[0]
    except cg.Budget:
      res.error = ('Budget', -1)
      return res
    except Exception as ex:
      res.error = ('%s: %s' % (type(ex).__name__, ex), -1)
      return res
    if is_ao and (cfg.get('pre_subscribe') or cfg.get('pre_publish') or pre_start_ops):
      # events queued before start_at: the object's thread works through them on its own
      while len(chart.queue) != 0 or chart._vt_busy:
        if not sem.acquire(timeout=20):
          raise Inconclusive('active object did not finish a step within 20 s')
        if chart._vt_exc is not None:
          res.error = ('%s: %s' % (type(chart._vt_exc).__name__, chart._vt_exc), len(res.steps))
          return res

    def drain():
      if is_ao:
        return
      n = 0
      while len(chart.queue) != 0:
        chart.next_rtc()
        snapshot(chart, res.steps)
        n += 1
        if n > max_steps:
          raise Inconclusive('queue does not drain within %d steps' % max_steps)
    def queries():
      """read-only queries between steps (is_in / child_state on random states); they must change nothing"""
      if query_rng is None or query_rng.random() > 0.35:
        return
      for _ in range(query_rng.randint(1, 3)):
        x = run_.fns[query_rng.randrange(spec['n'])]
        try:
          if query_rng.random() < 0.5:
            chart.is_in(x)
          else:
            chart.child_state(x)
        except cg.Budget:
          raise
        except Exception:
          pass          # child_state of a state that is not on the active path fails by contract
        res.nqueries += 1
      if chart.instrumented:
        # the chart took no step: current_state() must still name the state it rests in
        res.cur_after_queries.append(((len(res.steps), len(res.restarts)), chart.current_state()))
      run_.reset_logs()
    try:
      drain()
      queries()
      for kind, sig in ext_ops:
        if kind == 'restart':
          # the SAME chart object is started again (the client re-initialises it), the chart idle and its queue empty
          chart.start_at(run_.fns[sig])
          snapshot(chart, res.restarts)
          drain()
          queries()
          continue
        if kind in ('clear_spy', 'clear_trace'):
          # the client empties the full spy / trace between two steps (the object is idle)
          getattr(chart, kind)()
          continue
        ev = Event(signal=sig)
        with gate:
          if kind == 'fifo':
            chart.post_fifo(ev)
          else:
            chart.post_lifo(ev)
        if is_ao:
          while len(chart.queue) != 0 or chart._vt_busy:
            if not sem.acquire(timeout=20):
              raise Inconclusive('active object did not finish a step within 20 s')
            if chart._vt_exc is not None:
              raise chart._vt_exc
            if len(res.steps) > max_steps:
              raise Inconclusive('queue does not drain')
          if chart._vt_exc is not None:
            raise chart._vt_exc
        else:
          drain()
        queries()
    except cg.Budget:
      res.error = ('Budget', len(res.steps))
      return res
    except Inconclusive:
      raise
    except Exception as ex:
      res.error = ('%s: %s' % (type(ex).__name__, ex), len(res.steps))
      return res
    if chart.instrumented:
      res.spy_full = list(chart.full.spy)
      res.trace_records = [(t.start_state, t.signal, t.end_state) for t in chart.full.trace]
      res.trace_tuples = list(chart.full.trace)
      try:
        res.trace_text = chart.trace()
      except Exception as ex:
        # formatting the trace is C20/C32's business: recorded, decided by the trace oracle
        res.trace_text, res.trace_error = None, '%s: %s' % (type(ex).__name__, ex)
    res.chart = chart
    return res
  finally:
    if is_ao:
      try:
        if chart.thread is not None:
          chart.stop()
        if (cfg.get('live_spy') or cfg.get('live_trace')) and chart.writer.is_alive():
          chart.writer._queue.join()
      except Exception:
        pass


def expected_spy_lines(calls):
  out = []
  for r in calls:
    if r[0] == 'call':
      out.append('%s:%s' % (r[2], r[1]))
    elif r[0] == 'ret':
      if r[2] not in INNER and r[3] == RS.HANDLED:
        out.append('%s:%s:HOOK' % (r[2], r[1]))
    else:
      out.append(r[1])
  return out


class QueueModel:
  """deque model of the pending and deferred queues, driven by the same
  operation history (external posts, pops by next_rtc, handler-made acts)"""
  def __init__(self):
    self.q = collections.deque()
    self.d = collections.deque()
    self.bad = None

  def ext(self, kind, sig):
    (self.q.append if kind == 'fifo' else self.q.appendleft)(sig)

  def pop(self):
    return self.q.popleft() if self.q else None

  def apply_acts(self, log, current_sig):
    for r in log:
      if r[0] != 'act':
        continue
      if r[1] == 'post_fifo':
        self.q.append(r[2])
      elif r[1] == 'post_lifo':
        self.q.appendleft(r[2])
      elif r[1] == 'defer':
        self.d.append(r[2])
      elif r[1] == 'recall':
        exp = self.d.popleft() if self.d else None
        if exp != r[2]:
          self.bad = 'recall returned %r, oldest deferred event is %r' % (r[2], exp)
        if exp is not None:
          self.q.append(exp)
