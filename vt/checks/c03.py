"""C03 -- start_at enters the enclosing states outside-in and follows inits."""
from vt import chartgen as cg, seqrun

ID = 'C03'
RULE = ('random state trees with dense initial transitions (to any strict descendant, multi-level jumps, chains up to '
        'the depth of the tree) and states lacking entry/init clauses; EVERY state of every generated chart is used as '
        'start state of a fresh plain HsmEventProcessor and the entry/init ground-truth log and rest state are compared '
        'with the reference model (no exit may run, no state entered twice). distinct_nontrivial = distinct '
        '(depth of start state, number of entries, number of inits) tuples')
CASES = {'quick': 12000, 'thorough': 300000}
BUDGET = {'quick': 40, 'thorough': 300}
REQUIRE = {'starts': 5000, 'deep_init_chains': 20, 'deep_starts': 100}
ASSUME = ['generated charts are well-formed (inits target strict descendants)']


def run_case(ctx, n):
  rng = ctx.rng('case', n)
  params = seqrun.pick_params(rng, ctx.tier)
  spec = cg.gen_spec(rng, p_init=rng.choice([0.3, 0.6, 0.9]), p_clause=rng.choice([0.6, 0.85, 1.0]), **params)
  for start in range(spec['n']):
    res = seqrun.run_plain(ctx, rng, spec, start, [])
    m = cg.Model(spec)
    exp = m.start(start)
    ne = sum(1 for r in exp if r[0] == 'entry')
    ni = sum(1 for r in exp if r[0] == 'init')
    d = cg.depth_of(spec['parent'], start)
    ctx.distinct((d, ne, ni))
    if ni >= 4:
      ctx.count('deep_init_chains')
    if d >= 4:
      ctx.count('deep_starts')
    ctx.maxc('max_init_chain', ni)
    ctx.maxc('max_start_depth', d)
    for prop, key, what, wit in res:
      if prop == 'C03':
        ctx.violation(key, what, wit)
    if res:
      break
  if n < 2:
    ctx.sample({'spec': spec, 'starts': 'all %d states' % spec['n']})
