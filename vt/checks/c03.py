"""C03 -- start_at enters the enclosing states outside-in and follows inits."""
from vt import chartgen as cg, seqrun

ID = 'C03'
RULE = ('random state trees with dense initial transitions (to any strict descendant, multi-level jumps, chains up to '
        'the depth of the tree) and states lacking entry/init clauses; EVERY state of every generated chart is used as '
        'start state of a fresh plain HsmEventProcessor (every fifth case: of a fresh InstrumentedHsmEventProcessor or HsmWithQueues, instrumented or not, handlers under spy_on or plain closures) and the entry/init ground-truth log and rest state are compared '
        'with the reference model (no exit may run, no state entered twice); every fourth case starts the SAME chart object 2-4 times, '
        'in random states and with events in between (and every seventh case sets the chart\'s state / temp holders to None before start_at, the branch in which start_at creates them), and every one of these start_at calls must do what a first start does. '
        'distinct_nontrivial = distinct '
        '(depth of start state, number of entries, number of inits) tuples')
CASES = {'quick': 12000, 'thorough': 300000}
BUDGET = {'quick': 150, 'thorough': 300}
REQUIRE = {'starts': 5000, 'deep_init_chains': 20, 'deep_starts': 100, 'restarts_of_a_started_chart': 2000, 'starts_with_unset_state_holders': 3000, 'starts_on_instrumented_or_queued_hosts': 5000}
ASSUME = ['generated charts are well-formed (inits target strict descendants)']


def restart_case(ctx, rng, spec):
  """the SAME chart object is started several times (with events in between): every start_at must enter from the outermost
  state inward and exit nothing, wherever the chart rested before"""
  from miros.event import Event
  from miros.hsm import HsmEventProcessor
  run = cg.Run(spec, spied=False)
  chart = cg.counted_host(HsmEventProcessor, run)()
  names = spec['names']
  history = []
  wit = {'spec': spec, 'same_chart_object_history': history}
  gcount = 0
  for r in range(rng.randint(2, 4)):
    start = rng.randrange(spec['n'])
    history.append(('start_at', names[start]))
    model = cg.Model(spec)
    model.gcount = gcount      # the guards of the generated handlers count per chart object, across restarts
    run.reset_logs()
    try:
      chart.start_at(run.fns[start])
    except cg.Budget:
      ctx.violation('C03/start-does-not-terminate', 'start_at number %d of the same chart object exceeded the step budget' % (r + 1), wit)
      return
    except Exception as ex:
      ctx.violation('C03/restart-raises', 'start_at number %d of the same chart object (%s) raised %s: %s' % (r + 1, names[start], type(ex).__name__, ex), wit)
      return
    exp = model.start(start)
    got = seqrun.split(run.log)[1]
    ctx.count('starts')
    if r:
      ctx.count('restarts_of_a_started_chart')
    if got != exp:
      ctx.violation('C03/start-actions-differ', 'start_at(%s), call number %d on the same chart object: actions %r expected %r' % (names[start], r + 1, got, exp), wit)
      return
    if chart.state_name != names[model.cur]:
      ctx.violation('C03/start-rest-state', 'start_at(%s), call number %d on the same chart object, rests in %s expected %s' % (names[start], r + 1, chart.state_name, names[model.cur]), wit)
      return
    for sn in cg.gen_script(rng, spec, rng.randint(0, 4)):
      history.append(('dispatch', sn))
      run.reset_logs()
      exp_log = model.dispatch(sn)[0]
      try:
        chart.dispatch(Event(signal=sn))
      except cg.Budget:
        ctx.count('other_property_disagreements')
        return
      if seqrun.split(run.log)[1] != seqrun.split(exp_log)[1] or chart.state_name != names[model.cur]:
        ctx.count('other_property_disagreements')      # what a dispatch does is C01/C02's business
        return
    gcount = model.gcount


def run_case(ctx, n):
  rng = ctx.rng('case', n)
  params = seqrun.pick_params(rng, ctx.tier)
  spec = cg.gen_spec(rng, p_init=rng.choice([0.3, 0.6, 0.9]), p_clause=rng.choice([0.6, 0.85, 1.0]), clause_queries=n % 3 == 0, **params)
  if n % 4 == 3:
    ctx.distinct(('restart', spec['n'], n % 97))
    return restart_case(ctx, rng, spec)
  kw = {}
  if n % 5 == 1:
    # the other hosts that share start_at: InstrumentedHsmEventProcessor and HsmWithQueues (instrumented or not), with handlers
    # under spy_on or plain (generated handlers are closures; start_at of an instrumented host looks at the start state's closure)
    from miros.hsm import InstrumentedHsmEventProcessor, HsmWithQueues
    host, hk = rng.choice([(InstrumentedHsmEventProcessor, {}), (HsmWithQueues, {'instrumented': True}), (HsmWithQueues, {'instrumented': False})])
    kw = dict(host_cls=host, host_kwargs=hk, spied=rng.random() < 0.5)
  for start in range(spec['n']):
    if kw:
      ctx.count('starts_on_instrumented_or_queued_hosts')
    res = seqrun.run_plain(ctx, rng, spec, start, [], unset=[('state',), ('temp',), ('state', 'temp')][n % 3] if n % 7 == 3 else None, **kw)
    m = cg.Model(spec)
    exp = m.start(start)
    ne = sum(1 for r in exp if r[0] == 'entry')
    ni = sum(1 for r in exp if r[0] == 'init')
    d = cg.depth_of(spec['parent'], start)
    ctx.distinct((d, ne, ni))
    if ni >= 4:
      ctx.count('deep_init_chains')
    if d >= 4:
      ctx.count('deep_starts')
    ctx.maxc('max_init_chain', ni)
    ctx.maxc('max_start_depth', d)
    for prop, key, what, wit in res:
      if prop == 'C03':
        ctx.violation(key, what, wit)
    if res:
      break
  if n < 2:
    ctx.sample({'spec': spec, 'starts': 'all %d states' % spec['n']})
