"""C17 -- factory/template charts and their to_code text behave like hand-written charts."""
import threading
import types

from miros.event import signals, Event, return_status as RS
from miros.hsm import HsmWithQueues, state_method_template, spy_on
from miros.activeobject import Factory
from vt import chartgen as cg

ID = 'C17'
ENGINE = 'chartgen+model'
RULE = ('one generated spec is built (1) as a hand-written spied chart, (2) with state_method_template + register_signal_callback + '
        'register_parent on HsmWithQueues (a share through Factory.create/catch/nest on its own thread), (3) by exec-ing the text '
        'to_code returns for EVERY state of build 2 in a namespace holding spy_on, signals, return_status, the callbacks by __name__ and '
        'the sibling states; all builds are started in the same state and driven with the same event script; per step the ground-truth '
        'action log (entries, exits, inits, reactions, guard evaluations) and the rest state must be identical, and equal to the reference '
        'model. Specs include states without registered entry/exit/init, guard callbacks that decline, init callbacks that transition. '
        'Every fourth case registers (adds or replaces) 1-4 reactions with register_signal_callback AFTER the chart has already run events and compares with a hand-written chart whose reactions change at that moment. In every third case a share of the callbacks are bound methods of a DELEGATE object (not of the chart), which the template calls with the event only. In every second case a SECOND template chart that shares the first chart\'s state names but has a different design (nesting, '
        'reactions, callbacks) is assembled after the first and is alive while the first runs; it is then driven itself and must follow '
        'its own design (reference model) - whatever one chart registers belongs to that chart only. '
        'Every eighth case gives one callback NO status for a user signal (a guarded reaction that falls off its end): a hand-written state that calls the same callbacks passes the None on and the event processor rejects it - the template and the to_code text must do the same, step for step (actions, rest state, exception). Every sixteenth case ASSEMBLES the chart from 2-4 real threads at once (vt/osback.py: nothing substituted; every state got its first callback from the main thread beforehand) and then requires the behaviour of the design. distinct_nontrivial = distinct (build, states, transitions, declines) tuples')
CASES = {'quick': 2500, 'thorough': 100000}
BUDGET = {'quick': 150, 'thorough': 300}
REQUIRE = {'template_builds': 469, 'to_code_builds': 469, 'factory_builds': 50, 'steps_compared': 20000, 'declines': 200,
           'decoy_charts_alive_with_shared_state_names': 260, 'template_builds_with_delegate_callbacks': 150, 'late_registration_cases': 208, 'statusless_callback_cases': 99, 'statusless_callback_reached_and_rejected': 70, 'threaded_assembly_cases': 52}
ASSUME = ['signal and state names are Python identifiers (to_code emits signals.NAME and def NAME)']


class Delegate:
  """an object other than the chart that owns some of the callbacks (registered as bound methods: the template calls them
  with the event only); it reaches the chart through its own attribute"""
  def __init__(self):
    self.chart = None


def delegated(cbs, delegate, rng, share=0.4):
  """replaces a share of the (chart, e) callbacks by bound methods of the delegate object"""
  out = {}
  for key, cb in cbs.items():
    if rng.random() < share:
      def method(self_, e, _cb=cb):
        return _cb(self_.chart, e)
      method.__name__ = cb.__name__
      out[key] = types.MethodType(method, delegate)
    else:
      out[key] = cb
  return out


def make_callbacks(spec, log, fns, counter):
  """per (state, signal) callbacks with the reactions of the spec; they log ground truth"""
  cbs = {}
  names = spec['names']
  for i in range(spec['n']):
    name = names[i]
    has_en, has_ex, has_in = spec['clauses'][i]

    def mk_clause(kind, i=i, name=name):
      def cb(chart, e):
        log.append((kind, name))
        if kind == 'init' and spec['init'][i] is not None:
          return chart.trans(fns[names[spec['init'][i]]])
        return RS.HANDLED
      cb.__name__ = 'cb_%s_%s' % (name, kind)
      return cb
    if has_en:
      cbs[(i, 'ENTRY_SIGNAL')] = mk_clause('entry')
    if has_ex:
      cbs[(i, 'EXIT_SIGNAL')] = mk_clause('exit')
    if has_in:
      cbs[(i, 'INIT_SIGNAL')] = mk_clause('init')
    for sg in spec['sigs']:
      r = spec['react'].get('%d:%s' % (i, sg))
      if r is None:
        continue

      def mk(r=r, sg=sg, name=name):
        def cb(chart, e):
          log.append(('offer', name, sg))
          if r['k'] == 'G':
            counter[0] += 1
            fired = counter[0] % r['m'] == 0
            log.append(('guard', name, sg, fired))
            if not fired:
              return RS.UNHANDLED
          if r['k'] == 'H' or r.get('t') is None:
            return RS.HANDLED
          return chart.trans(fns[names[r['t']]])
        cb.__name__ = 'cb_%s_%s' % (name, sg)
        return cb
      cbs[(i, sg)] = mk()
  return cbs


def build_template(chart, spec, cbs, fns, factory=None):
  names = spec['names']
  blue = {}
  for i in range(spec['n']):
    if factory is not None:
      blue[i] = factory.create(state=names[i])
      fns[names[i]] = blue[i].to_method()
    else:
      fns[names[i]] = state_method_template(names[i])
  for i in range(spec['n']):
    for (j, sg), cb in cbs.items():
      if j != i:
        continue
      if factory is not None:
        blue[i].catch(signal=signals[sg] if sg in signals else getattr(signals, sg), handler=cb)
      else:
        chart.register_signal_callback(fns[names[i]], getattr(signals, sg), cb)
    p = spec['parent'][i]
    if factory is not None:
      factory.nest(fns[names[i]], parent=None if p is None else fns[names[p]])
    else:
      chart.register_parent(fns[names[i]], chart.top if p is None else fns[names[p]])


def relevant(spec, log, table=None):
  table = spec['react'] if table is None else table
  idx = {nm: i for i, nm in enumerate(spec['names'])}
  out = []
  for r in log:
    if r[0] in ('entry', 'exit', 'init', 'guard'):
      out.append(tuple(r))
    elif r[0] == 'offer' and '%d:%s' % (idx[r[1]], r[2]) in table:
      out.append(tuple(r))
  return out


def drive_sync(chart, start_fn, script, log, tick_reset, hooks=None):
  """HsmWithQueues: post + next_rtc; returns [(log, rest)] for start and each step; hooks[k] runs before step k"""
  out = []
  chart.start_at(start_fn)
  out.append((list(log), chart.state_name))
  for k, sn in enumerate(script):
    if hooks and k in hooks:
      hooks[k]()
    del log[:]
    tick_reset()
    chart.post_fifo(Event(signal=sn))
    chart.next_rtc()
    out.append((list(log), chart.state_name))
  return out


def late_registration_case(ctx, n):
  """reactions are registered (added or replaced) with register_signal_callback AFTER the chart has already run events - the
  use the repository calls 'adding event handling after the state was written'; from then on the template chart must behave like
  a hand-written chart whose reactions changed at that moment"""
  rng = ctx.rng('late', n)
  spec = cg.gen_spec(rng, nmax=rng.choice([3, 6, 10]), name_style='plain', p_clause=0.85, nsig=rng.randint(2, 4))
  spec['sigs'] = spec['sigs'][:-1] + ['ZZ']
  names = spec['names']
  start = rng.randrange(spec['n'])
  script = cg.gen_script(rng, spec, rng.randint(8, 30), p_unknown=0.02)
  k0 = rng.randint(2, max(2, len(script) - 3))
  react_a = dict(spec['react'])
  changes = {}
  for _ in range(rng.randint(1, 4)):
    i, sg = rng.randrange(spec['n']), rng.choice(spec['sigs'][:-1])
    changes['%d:%s' % (i, sg)] = rng.choice([{'k': 'H'}, {'k': 'T', 't': rng.randrange(spec['n'])}, {'k': 'G', 't': rng.choice([None, rng.randrange(spec['n'])]), 'm': 2}])
  wit = {'spec_before': dict(spec, react=react_a), 'start': start, 'script': script, 'reactions_registered_before_step': k0, 'registered': changes}
  # ---- hand-written chart whose reactions change before step k0, and the reference model
  spec['react'] = dict(react_a)
  run = cg.Run(spec, spied=True)
  c1 = cg.counted_host(HsmWithQueues, run)()
  try:
    ref = drive_sync(c1, run.fns[start], script, run.log, run.reset_logs, hooks={k0: lambda: spec['react'].update(changes)})
  except cg.Budget:
    ctx.count('other_property_disagreements')
    return
  spec['react'] = dict(react_a)
  react_b = dict(react_a, **changes)
  table_at = lambda j: react_a if j == 0 or (j - 1) < k0 else react_b       # j = 0 is start_at, j >= 1 is script step j-1
  m = cg.Model(spec)
  exp = [relevant(spec, m.start(start), react_a)]
  for k, sn in enumerate(script):
    if k == k0:
      spec['react'].update(changes)
    exp.append(relevant(spec, m.dispatch(sn)[0], table_at(k + 1)))
  ref = [(relevant(spec, lg, table_at(j)), rest) for j, (lg, rest) in enumerate(ref)]
  if [r[0] for r in ref] != exp:
    ctx.count('other_property_disagreements')
    return
  # ---- template chart: same callbacks, the changed reactions registered before step k0
  spec['react'] = dict(react_a)
  log2, fns2, cnt2 = [], {}, [0]
  cbs2 = make_callbacks(spec, log2, fns2, cnt2)
  budget = [0]

  class Counted(HsmWithQueues):
    def top(self, *a):
      budget[0] += 1
      if budget[0] > 20000:
        raise cg.Budget()
      return HsmWithQueues.top(self, *a)
  c2 = Counted()
  build_template(c2, spec, cbs2, fns2)

  def register_late():
    mini = dict(spec, react=dict(changes), clauses=[[False, False, False]] * spec['n'])
    for (i, sg), cb in make_callbacks(mini, log2, fns2, cnt2).items():
      c2.register_signal_callback(fns2[names[i]], getattr(signals, sg), cb)
    spec['react'].update(changes)         # ('relevant' reads the table)
  ctx.count('late_registration_cases')
  try:
    got = drive_sync(c2, fns2[names[start]], script, log2, lambda: budget.__setitem__(0, 0), hooks={k0: register_late})
  except cg.Budget:
    ctx.violation('C17/template-does-not-terminate', 'template build exceeded the step budget after reactions were registered on the running chart', wit)
    return
  except Exception as ex:
    ctx.violation('C17/template-raises', 'template build raised %s: %s after reactions were registered on the running chart' % (type(ex).__name__, ex), wit)
    return
  got = [(relevant(spec, lg, table_at(j)), rest) for j, (lg, rest) in enumerate(got)]
  ctx.count('steps_compared', len(got))
  ctx.distinct(('late', spec['n'], len(changes), k0))
  for k, ((lg, rest), (elg, erest)) in enumerate(zip(got, ref)):
    if lg != elg or rest != erest:
      ctx.violation('C17/template-differs-from-hand-written', 'template chart, step %d (%s; reactions %r were registered on the running chart before step %d): log %r rest %s; hand-written chart: %r rest %s' % (
        k - 1, script[k - 1] if k else 'start_at', sorted(changes), k0, lg, rest, elg, erest), dict(wit, failing_step=k - 1))
      return


def statusless_callback_case(ctx, n):
  """one registered callback answers a user signal WITHOUT a status (a guarded reaction that falls off its end: `if chart.armed:
  return chart.trans(x)` and nothing else).  A hand-written state passes that None on to the event processor - and so does the
  text to_code writes (`status = cb(chart, e)` ... `return status`) - which rejects it; the templated chart must do the same
  thing, step for step: same actions, same rest state, same exception (the run ends at the first exception)"""
  rng = ctx.rng('statusless', n)
  spec = cg.gen_spec(rng, nmax=rng.choice([3, 5, 8]), name_style='plain', p_clause=0.85, nsig=rng.randint(2, 3))
  spec['sigs'] = spec['sigs'][:-1] + ['ZZ']
  names = spec['names']
  start = rng.randrange(spec['n'])
  keys = sorted(k for k in spec['react'])
  if not keys:
    return
  # the statusless reaction sits on the start state's path to the top in most cases (so that the script reaches it)
  path = cg.anc(spec, start)
  on_path = [k for k in keys if int(k.split(':')[0]) in path]
  bad = rng.choice(on_path) if on_path and rng.random() < 0.8 else rng.choice(keys)
  bi, bsg = int(bad.split(':')[0]), bad.split(':')[1]
  script = cg.gen_script(rng, spec, rng.randint(0, 3)) + [bsg] + cg.gen_script(rng, spec, rng.randint(2, 8))
  wit = {'spec': spec, 'start': start, 'script': script, 'callback_without_status': {'state': names[bi], 'signal': bsg}}

  def callbacks(log, fns, cnt):
    cbs = make_callbacks(spec, log, fns, cnt)

    def cb(chart, e):
      log.append(('offer', names[bi], bsg))       # ... and falls off its end
    cb.__name__ = 'cb_%s_%s' % (names[bi], bsg)
    cbs[(bi, bsg)] = cb
    return cbs

  def drive(chart, start_fn, log, reset):
    out = []
    chart.start_at(start_fn)
    out.append((relevant(spec, list(log)), chart.state_name, None))
    for sn in script:
      del log[:]
      reset()
      chart.post_fifo(Event(signal=sn))
      exc = None
      try:
        chart.next_rtc()
      except cg.Budget:
        raise
      except Exception as ex:
        exc = type(ex).__name__
      out.append((relevant(spec, list(log)), chart.state_name, exc))
      if exc:
        break
    return out
  budget = [0]

  class Counted(HsmWithQueues):
    def top(self, *a):
      budget[0] += 1
      if budget[0] > 20000:
        raise cg.Budget()
      return HsmWithQueues.top(self, *a)
  reset = lambda: budget.__setitem__(0, 0)
  # ---- build 1: hand-written states that call the same callbacks and pass their answer on
  log1, fns1, cnt1 = [], {}, [0]
  cbs1 = callbacks(log1, fns1, cnt1)
  c1 = Counted()

  def mk_state(i):
    def st(chart, e):
      cb = cbs1.get((i, e.signal_name))
      status = cb(chart, e) if cb is not None else RS.UNHANDLED
      if cb is None and e.signal_name in ('ENTRY_SIGNAL', 'EXIT_SIGNAL', 'INIT_SIGNAL'):
        return RS.HANDLED
      if status == RS.UNHANDLED:
        p = spec['parent'][i]
        chart.temp.fun = chart.top if p is None else fns1[names[p]]
        status = RS.SUPER
      return status
    st.__name__ = names[i]
    return spy_on(st)
  for i in range(spec['n']):
    fns1[names[i]] = mk_state(i)
  try:
    ref = drive(c1, fns1[names[start]], log1, reset)
  except cg.Budget:
    ctx.count('other_property_disagreements')
    return
  ctx.count('statusless_callback_cases')
  if ref[-1][2]:
    ctx.count('statusless_callback_reached_and_rejected')
  ctx.distinct(('statusless', spec['n'], len(ref), ref[-1][2]))
  # ---- build 2: template
  log2, fns2, cnt2 = [], {}, [0]
  cbs2 = callbacks(log2, fns2, cnt2)
  c2 = Counted()
  build_template(c2, spec, cbs2, fns2)
  # ---- build 3: to_code text
  log3, fns3, cnt3 = [], {}, [0]
  cbs3 = callbacks(log3, fns3, cnt3)
  ns = {'spy_on': spy_on, 'signals': signals, 'return_status': RS}
  for cb in cbs3.values():
    ns[cb.__name__] = cb
  try:
    for i in range(spec['n']):
      exec(c2.to_code(fns2[names[i]]), ns)
  except Exception as ex:
    ctx.violation('C17/to-code-text-invalid', 'to_code text could not be produced/executed: %s: %s' % (type(ex).__name__, ex), wit)
    return
  for nm in names:
    fns3[nm] = ns[nm]
  c3 = Counted()
  for tag, chart, fns, log in (('template', c2, fns2, log2), ('to_code', c3, fns3, log3)):
    try:
      got = drive(chart, fns[names[start]], log, reset)
    except cg.Budget:
      ctx.violation('C17/%s-does-not-terminate' % tag.replace('_', '-'), '%s build exceeded the step budget (one callback returns no status)' % tag, wit)
      return
    ctx.count('steps_compared', len(got))
    for k, (g, r) in enumerate(zip(got, ref)):
      if g != r:
        ctx.violation('C17/%s-differs-from-hand-written' % tag, '%s build, step %d (%s), the callback of %s for %s returns no status: log %r rest %s exception %s; hand-written chart: log %r rest %s exception %s' % (
          tag, k - 1, script[k - 1] if k else 'start_at', names[bi], bsg, g[0], g[1], g[2], r[0], r[1], r[2]), dict(wit, failing_step=k - 1))
        return
    if len(got) != len(ref):
      ctx.violation('C17/%s-differs-from-hand-written' % tag, '%s build ran %d steps, the hand-written chart %d (one callback returns no status)' % (tag, len(got) - 1, len(ref) - 1), wit)
      return


def threaded_assembly_case(ctx, n):
  """the chart is ASSEMBLED BY SEVERAL THREADS (second opinion on real threads, vt/osback.py: nothing substituted, switch interval
  1 us, random yields at line starts of miros code): every state gets its first callback from the main thread (so that the state
  is known to the chart), then 2-4 threads register the reactions of the same states at once; once every registration call has
  returned the chart must react to every signal it has a callback for, like the hand-written chart (reference model).  Threads
  that do not finish within the wall-clock limit make the case inconclusive here, never a verdict"""
  from vt import osback
  rng = ctx.rng('threads', n)
  spec = cg.gen_spec(rng, nmax=rng.choice([2, 3, 5]), name_style='plain', p_clause=1.0, nsig=rng.randint(4, 6), guards=False)
  spec['sigs'] = spec['sigs'][:-1] + ['ZZ']
  for i in range(spec['n']):
    spec['clauses'][i] = [True, True, True]
  names = spec['names']
  start = rng.randrange(spec['n'])
  script = cg.gen_script(rng, spec, rng.randint(10, 30))
  log, fns, cnt = [], {}, [0]
  cbs = make_callbacks(spec, log, fns, cnt)
  budget = [0]

  class Counted(HsmWithQueues):
    def top(self, *a):
      budget[0] += 1
      if budget[0] > 20000:
        raise cg.Budget()
      return HsmWithQueues.top(self, *a)
  chart = Counted()
  for i in range(spec['n']):
    fns[names[i]] = state_method_template(names[i])
  for i in range(spec['n']):
    p = spec['parent'][i]
    chart.register_parent(fns[names[i]], chart.top if p is None else fns[names[p]])
    # the first callback of every state comes from the main thread
    chart.register_signal_callback(fns[names[i]], signals.ENTRY_SIGNAL, cbs[(i, 'ENTRY_SIGNAL')])
  rest = [(i, sg, cb) for (i, sg), cb in sorted(cbs.items(), key=lambda kv: (kv[0][0], kv[0][1])) if sg != 'ENTRY_SIGNAL']
  rng.shuffle(rest)
  nthreads = rng.randint(2, 4)
  shares = [rest[k::nthreads] for k in range(nthreads)]

  def registrar(share):
    for i, sg, cb in share:
      chart.register_signal_callback(fns[names[i]], getattr(signals, sg), cb)
  for sg in spec['sigs']:
    getattr(signals, sg)          # (signal names are registered beforehand: the registry is C25's business)
  with osback.Perturb(rng.randrange(1 << 30), p_yield=rng.choice([0.2, 0.5, 0.8])) as P:
    finished, excs = osback.run_threads([(registrar, (sh,)) for sh in shares], limit=30.0)
  ctx.count('os_backend_yields_injected', P.nyields)
  wit = {'backend': 'os threads', 'spec': spec, 'start': start, 'script': script, 'registering_threads': nthreads}
  if excs:
    ctx.count('threaded_assembly_cases')
    ctx.violation('C17/template-raises', 'a thread registering callbacks raised: %r' % excs, wit)
    return
  if not finished:
    ctx.count('os_backend_inconclusive')
    return
  ctx.count('threaded_assembly_cases')
  ctx.count('callbacks_registered_by_racing_threads', len(rest))
  m = cg.Model(spec)
  exp = [relevant(spec, m.start(start))]
  for sn in script:
    exp.append(relevant(spec, m.dispatch(sn)[0]))
  try:
    got = drive_sync(chart, fns[names[start]], script, log, lambda: budget.__setitem__(0, 0))
  except cg.Budget:
    ctx.violation('C17/template-does-not-terminate', 'template chart assembled by %d threads exceeded the step budget' % nthreads, wit)
    return
  except Exception as ex:
    ctx.violation('C17/template-raises', 'template chart assembled by %d threads raised %s: %s' % (nthreads, type(ex).__name__, ex), wit)
    return
  got = [relevant(spec, lg) for lg, rest_ in got]
  ctx.count('steps_compared', len(got))
  ctx.distinct(('threads', spec['n'], nthreads, len(rest)))
  for k, (lg, elg) in enumerate(zip(got, exp)):
    if lg != elg:
      ctx.violation('C17/template-differs-from-hand-written', 'template chart whose callbacks were registered by %d threads at once, step %d (%s): log %r; the design gives %r' % (
        nthreads, k - 1, script[k - 1] if k else 'start_at', lg, elg), dict(wit, failing_step=k - 1))
      return


def run_case(ctx, n):
  if n % 4 == 2:
    return late_registration_case(ctx, n)
  if n % 16 == 9:
    return threaded_assembly_case(ctx, n)
  if n % 8 == 5:
    return statusless_callback_case(ctx, n)
  rng = ctx.rng('case', n)
  spec = cg.gen_spec(rng, nmax=rng.choice([3, 6, 10]), name_style=rng.choice(cg.NAME_STYLES), p_clause=rng.choice([0.5, 0.85]),
                     nsig=rng.randint(2, 5))
  spec['sigs'] = spec['sigs'][:-1] + ['ZZ']
  names = spec['names']
  start = rng.randrange(spec['n'])
  script = cg.gen_script(rng, spec, rng.randint(5, 30))
  wit = {'spec': spec, 'start': start, 'script': script}
  # ---- build 1: hand written
  run = cg.Run(spec, spied=True)
  c1 = cg.counted_host(HsmWithQueues, run)()
  try:
    ref = drive_sync(c1, run.fns[start], script, run.log, run.reset_logs)
  except cg.Budget:
    ctx.count('other_property_disagreements')
    return
  ref = [(relevant(spec, lg), rest) for lg, rest in ref]
  # the model ties the reference to the statement
  m = cg.Model(spec)
  exp = [relevant(spec, m.start(start))]
  for sn in script:
    exp.append(relevant(spec, m.dispatch(sn)[0]))
  if [r[0] for r in ref] != exp:
    ctx.count('other_property_disagreements')
    return
  ntran = sum(1 for lg, _ in ref[1:] if any(r[0] in ('entry', 'exit') for r in lg))
  ndecl = sum(1 for lg, _ in ref for r in lg if r[0] == 'guard' and not r[3])
  ctx.count('declines', ndecl)

  def compare(tag, got):
    ctx.count('steps_compared', len(got))
    ctx.distinct((tag, spec['n'], ntran, ndecl))
    for k, ((lg, rest), (elg, erest)) in enumerate(zip(got, ref)):
      if lg != elg or rest != erest:
        ctx.violation('C17/%s-differs-from-hand-written' % tag,
                      '%s build, step %d (%s): log %r rest %s; hand-written chart: %r rest %s' % (tag, k - 1, script[k - 1] if k else 'start_at', lg, rest, elg, erest),
                      dict(wit, failing_step=k - 1))
        return False
    return True

  # ---- build 2: template + registry
  log2, fns2, cnt2 = [], {}, [0]
  cbs2 = make_callbacks(spec, log2, fns2, cnt2)
  budget = [0]

  class Counted(HsmWithQueues):
    def top(self, *a):
      budget[0] += 1
      if budget[0] > 20000:
        raise cg.Budget()
      return HsmWithQueues.top(self, *a)
  c2 = Counted()
  if n % 3 == 0:
    # a share of the callbacks belong to a delegate object and are registered as bound methods
    dlg = Delegate()
    dlg.chart = c2
    cbs2 = delegated(cbs2, dlg, rng)
    ctx.count('template_builds_with_delegate_callbacks')
  build_template(c2, spec, cbs2, fns2)
  ctx.count('template_builds')
  # half of the cases: a SECOND template chart with the same state names but a different design (other nesting, other
  # reactions, other callbacks) is assembled after the first and is alive while the first runs; both must behave as their
  # own design says (charts are independent objects: whatever one registers belongs to that chart only)
  decoy = make_decoy(ctx, rng, spec, Counted) if n % 2 == 1 else None
  try:
    got2 = drive_sync(c2, fns2[names[start]], script, log2, lambda: budget.__setitem__(0, 0))
  except cg.Budget:
    ctx.violation('C17/template-does-not-terminate', 'template build exceeded the step budget', wit)
    return
  except Exception as ex:
    ctx.violation('C17/template-raises', 'template build raised %s: %s' % (type(ex).__name__, ex), wit)
    return
  got2 = [(relevant(spec, lg), rest) for lg, rest in got2]
  if not compare('template', got2):
    return
  # ---- build 3: exec of to_code text of every state
  log3, fns3, cnt3 = [], {}, [0]
  cbs3 = make_callbacks(spec, log3, fns3, cnt3)
  ns = {'spy_on': spy_on, 'signals': signals, 'return_status': RS}
  for cb in cbs3.values():
    ns[cb.__name__] = cb
  texts = {}
  try:
    for i in range(spec['n']):
      texts[names[i]] = c2.to_code(fns2[names[i]])
      exec(texts[names[i]], ns)
  except Exception as ex:
    ctx.violation('C17/to-code-text-invalid', 'to_code text could not be produced/executed: %s: %s' % (type(ex).__name__, ex), dict(wit, texts=texts))
    return
  for nm in names:
    fns3[nm] = ns[nm]
  c3 = Counted()
  ctx.count('to_code_builds')
  try:
    got3 = drive_sync(c3, fns3[names[start]], script, log3, lambda: budget.__setitem__(0, 0))
  except cg.Budget:
    ctx.violation('C17/to-code-does-not-terminate', 'to_code build exceeded the step budget', dict(wit, texts=texts))
    return
  except Exception as ex:
    ctx.violation('C17/to-code-raises', 'to_code build raised %s: %s' % (type(ex).__name__, ex), dict(wit, texts=texts))
    return
  got3 = [(relevant(spec, lg), rest) for lg, rest in got3]
  if not compare('to_code', got3):
    return
  if decoy is not None and not check_decoy(ctx, decoy, budget, wit):
    return
  # ---- build 4 (a share): Factory on its own thread
  if n % 8 == 0:
    factory_build(ctx, spec, start, script, ref, compare, wit)
  if n < 2:
    ctx.sample({'spec': spec, 'start': start, 'script': script, 'to_code_of_first_state': texts[names[0]]})


def make_decoy(ctx, rng, spec, host_cls):
  """a second chart sharing the first chart's state names: different tree, reactions and callbacks"""
  d = cg.gen_spec(rng, nmax=max(2, spec['n']), name_style='plain', p_clause=0.85, nsig=len(spec['sigs']))
  d['sigs'] = list(spec['sigs'])      # same alphabet as the first chart: E0.., with 'ZZ' (nobody answers) last
  perm = list(range(spec['n']))
  rng.shuffle(perm)
  d['names'] = [spec['names'][perm[i]] if i < spec['n'] else 'decoy_only_%d' % i for i in range(d['n'])]
  logd, fnsd, cntd = [], {}, [0]
  cbsd = make_callbacks(d, logd, fnsd, cntd)
  cd = host_cls()
  build_template(cd, d, cbsd, fnsd)
  ctx.count('decoy_charts_alive_with_shared_state_names')
  return {'spec': d, 'chart': cd, 'log': logd, 'fns': fnsd, 'start': rng.randrange(d['n']), 'script': cg.gen_script(rng, d, rng.randint(3, 15))}


def check_decoy(ctx, decoy, budget, wit):
  """the second chart, driven after the first one ran, must follow its own design (reference model)"""
  d = decoy['spec']
  m = cg.Model(d)
  exp = [relevant(d, m.start(decoy['start']))]
  for sn in decoy['script']:
    exp.append(relevant(d, m.dispatch(sn)[0]))
  wit = dict(wit, second_chart={'spec': d, 'start': decoy['start'], 'script': decoy['script']})
  try:
    got = drive_sync(decoy['chart'], decoy['fns'][d['names'][decoy['start']]], decoy['script'], decoy['log'], lambda: budget.__setitem__(0, 0))
  except cg.Budget:
    ctx.violation('C17/template-does-not-terminate', 'second template chart (same state names as the first) exceeded the step budget', wit)
    return False
  except Exception as ex:
    ctx.violation('C17/template-raises', 'second template chart (same state names as the first) raised %s: %s' % (type(ex).__name__, ex), wit)
    return False
  got = [relevant(d, lg) for lg, rest in got]
  ctx.count('steps_compared', len(got))
  for k, (lg, elg) in enumerate(zip(got, exp)):
    if lg != elg:
      ctx.violation('C17/template-differs-from-hand-written', 'second template chart (same state names as the first, different design), step %d: log %r; its own design gives %r' % (k - 1, lg, elg), dict(wit, failing_step=k - 1))
      return False
  return True


def factory_build(ctx, spec, start, script, ref, compare, wit):
  names = spec['names']
  log4, fns4, cnt4 = [], {}, [0]
  cbs4 = make_callbacks(spec, log4, fns4, cnt4)
  sem = threading.Semaphore(0)
  steps = []

  class SyncFactory(Factory):
    def next_rtc(self):
      try:
        return Factory.next_rtc(self)
      finally:
        steps.append((list(log4), self.state_name))
        del log4[:]
        sem.release()
  f = SyncFactory('factory_chart')
  f.live_spy = f.live_trace = False
  try:
    build_template(f, spec, cbs4, fns4, factory=f)
    f.start_at(fns4[names[start]])
    got = [(list(log4), f.state_name)]
    del log4[:]
    for sn in script:
      f.post_fifo(Event(signal=sn))
      if not sem.acquire(timeout=20):
        ctx.count('inconclusive_runs')
        return
    got += steps
  except Exception as ex:
    ctx.violation('C17/factory-raises', 'Factory build raised %s: %s' % (type(ex).__name__, ex), wit)
    return
  finally:
    try:
      if f.thread is not None:
        f.stop()
    except Exception:
      pass
  ctx.count('factory_builds')
  got = [(relevant(spec, lg), rest) for lg, rest in got]
  compare('factory', got)
