"""C26 -- Event.dumps / Event.loads round-trip name and payload."""
import copy
import json
import math

from miros.event import Event, signals

ID = 'C26'
ENGINE = 'seq'
TECHNIQUE = 'runtime monitoring: generated inputs with a round-trip oracle (type-exact equality, registry lookup)'
RULE = ('signal names from a generator (identifiers, long names, unicode, spaces/brackets/quotes, names that look like numbers, names '
        'first registered by this very call) and payloads from a recursive JSON generator (None, booleans, ints incl. > 2**64, finite '
        'floats incl. -0.0 / denormals / 1e308, strings incl. escapes, non-BMP and lone surrogates, nested lists and string-keyed dicts '
        'to depth 6); loads(dumps(e)) must have the same signal_name, a payload that is type-exactly equal, and signal == the number the '
        'registry holds for that name; hand-built JSON naming a never-seen signal must register it. Histories, not only single calls: '
        'in half of the cases the decoded payload is then mutated in place (as a receiving handler might) and the SAME text is decoded '
        'again, the original event is mutated in place and dumped again, and a look-alike payload (1/True/1.0, 0/False/0.0/-0.0 swapped '
        'inside the same structure) is round-tripped under the same name - each result must depend on its own input only (no result '
        'remembered from an earlier call). distinct_nontrivial = distinct '
        '(name class, payload shape signature) pairs')
CASES = {'quick': 60000, 'thorough': 5000000}
BUDGET = {'quick': 150, 'thorough': 300}
REQUIRE = {'round_trips': 20000, 'new_names_via_loads': 500, 'nested_payloads': 5000, 'second_decodes_after_in_place_mutation': 2000,
           'look_alike_round_trips': 2000, 'second_dumps_after_in_place_mutation': 1000}
ASSUME = ['payloads are JSON-representable: None, bool, finite numbers, str, list, dict with str keys']
FRESH = [0]


def gen_name(rng, ctx):
  r = rng.random()
  if r < 0.4:
    return 'SIG_%d' % rng.randrange(40), 'ident'
  if r < 0.5:
    FRESH[0] += 1
    return 'FRESH_%d_%d_%d' % (ctx.wid, ctx.seed, FRESH[0]), 'fresh'
  if r < 0.6:
    return 'L' * rng.randint(100, 400), 'long'
  if r < 0.7:
    return rng.choice(['12345', '0', '-1', '1e5', '3.14']), 'numeric-looking'
  if r < 0.8:
    return rng.choice(['a b', 'a[1]', 'x"y', "it's", 'back\\slash', 'new\nline', 'tab\t', '{"k":1}', '']), 'punct'
  if r < 0.9:
    return rng.choice(['événement', '信号', '\U0001f600sig', 'näive', '\ud800lone']), 'unicode'
  return rng.choice(['ENTRY_SIGNAL', 'EXIT_SIGNAL', 'INIT_SIGNAL', 'signal', 'payload', 'keys', 'append', 'update', 'clear', 'pop', 'get', 'copy', 'items',
                     'values', 'lock', 'highest_inner_signal', 'name_for_signal', 'is_inner_signal', '__len__', '__class__', 'move_to_end']), 'reserved'


def gen_payload(rng, depth=0):
  r = rng.random()
  if depth >= 6 or r < 0.5:
    k = rng.randrange(12)
    if k == 0:
      return None
    if k == 1:
      return rng.random() < 0.5
    if k == 2:
      return rng.randrange(-1000, 1000)
    if k == 3:
      return rng.choice([2 ** 64 + 1, -2 ** 70, 10 ** 40, 0, -0])
    if k == 4:
      return rng.choice([-0.0, 5e-324, 1e308, -1e-310, 0.1, 1 / 3, 2.0, 1e22, 123456789.123456789])
    if k == 5:
      return rng.uniform(-1e6, 1e6)
    if k == 6:
      return rng.choice(['', 'x', 'a"b', 'back\\slash', '\n\t\r', '\u0000', ' ', '\U0001f600', '\ud83d', 'null', 'true', '1'])
    if k == 7:
      return ''.join(chr(rng.choice([rng.randrange(32, 127), rng.randrange(0x80, 0x800), rng.randrange(0x10000, 0x10ffff)])) for _ in range(rng.randint(1, 12)))
    if k == 8:
      return []
    if k == 9:
      return {}
    return rng.randrange(10)
  if r < 0.75:
    return [gen_payload(rng, depth + 1) for _ in range(rng.randint(0, 4))]
  return {rng.choice(['a', 'b', 'signal_name', 'payload', '', 'é', 'k%d' % rng.randrange(5)]): gen_payload(rng, depth + 1) for _ in range(rng.randint(0, 4))}


def exact_equal(a, b):
  if type(a) is not type(b):
    return False
  if isinstance(a, float):
    return a == b and math.copysign(1, a) == math.copysign(1, b)
  if isinstance(a, list):
    return len(a) == len(b) and all(exact_equal(x, y) for x, y in zip(a, b))
  if isinstance(a, dict):
    return list(a.keys()) == list(b.keys()) and all(exact_equal(a[k], b[k]) for k in a)
  return a == b


def shape(p, d=0):
  if isinstance(p, list):
    return ('L', len(p), tuple(shape(x, d + 1) for x in p[:3])) if d < 3 else 'L'
  if isinstance(p, dict):
    return ('D', len(p), tuple(shape(x, d + 1) for x in list(p.values())[:3])) if d < 3 else 'D'
  return type(p).__name__


def containers(p, out):
  if isinstance(p, list):
    out.append(p)
    for x in p:
      containers(x, out)
  elif isinstance(p, dict):
    out.append(p)
    for x in p.values():
      containers(x, out)
  return out


def mutate_in_place(p, rng):
  """changes one container somewhere inside p (in place); False when p holds no container"""
  cs = containers(p, [])
  if not cs:
    return False
  c = rng.choice(cs)
  if isinstance(c, list):
    if c and rng.random() < 0.5:
      c[rng.randrange(len(c))] = 'changed-in-place'
    else:
      c.append('appended-in-place')
  else:
    c['added-in-place'] = rng.randrange(100)
  return True


LOOK_ALIKE = {int: {0: [False, 0.0, -0.0], 1: [True, 1.0]}, bool: {False: [0, 0.0], True: [1, 1.0]}, float: {0.0: [0, False, -0.0], 1.0: [1, True]}}


def look_alike(p, rng, changed):
  """a payload that compares/hashes equal to p where Python's == cannot tell 1, True and 1.0 (0, False, 0.0, -0.0) apart"""
  if isinstance(p, list):
    return [look_alike(x, rng, changed) for x in p]
  if isinstance(p, dict):
    return {k: look_alike(v, rng, changed) for k, v in p.items()}
  alts = LOOK_ALIKE.get(type(p), {}).get(p)
  if alts and rng.random() < 0.8:
    changed.append(1)
    return rng.choice(alts)
  return p


def run_case(ctx, n):
  rng = ctx.rng('case', n)
  name, ncls = gen_name(rng, ctx)
  payload = gen_payload(rng)
  wit = {'signal_name': name, 'payload': repr(payload)}
  e = None
  if rng.random() < 0.15:
    # hand-built JSON, as if received from another process
    FRESH[0] += 1
    name = 'REMOTE_%d_%d_%d%s' % (ctx.wid, ctx.seed, FRESH[0], rng.choice(['', ' x', 'é']))
    assert name not in signals
    text = json.dumps({'signal_name': name, 'payload': payload})
    try:
      e2 = Event.loads(text)
    except Exception as ex:
      ctx.violation('C26/loads-raises', 'loads of hand-built JSON raised %s: %s' % (type(ex).__name__, ex), dict(wit, json=text))
      return
    ctx.count('new_names_via_loads')
    if name not in signals:
      ctx.violation('C26/loads-does-not-register', 'loads did not register the unknown signal name %r' % name, dict(wit, json=text))
      return
  else:
    try:
      e = Event(signal=name, payload=payload)
      text = Event.dumps(e)
      e2 = Event.loads(text)
    except Exception as ex:
      ctx.violation('C26/round-trip-raises', 'dumps/loads raised %s: %s' % (type(ex).__name__, ex), wit)
      return
  ctx.count('round_trips')
  if isinstance(payload, (list, dict)) and payload:
    ctx.count('nested_payloads')
  ctx.distinct((ncls, shape(payload)))
  if name not in signals or not isinstance(e2.signal, int) or isinstance(e2.signal, bool):
    ctx.violation('C26/number-differs', 'round-tripped event of signal name %r reports number %r; the registry %s' % (
      name, e2.signal, ('has %r for that name' % (signals[name],)) if name in signals else 'does not know that name'), wit)
  elif e2.signal_name != name:
    ctx.violation('C26/name-differs', 'round trip changed the signal name %r -> %r' % (name, e2.signal_name), wit)
  elif not exact_equal(e2.payload, payload):
    ctx.violation('C26/payload-differs', 'round trip changed the payload %r -> %r' % (payload, e2.payload), wit)
  elif e2.signal != signals[name] or signals.name_for_signal(e2.signal) != name:
    ctx.violation('C26/number-differs', 'round-tripped event reports number %r, registry has %r for %r' % (e2.signal, signals[name], name), wit)
  if ctx.nviol == 0 and n % 2 == 0:
    history_leg(ctx, rng, name, payload, text, e, e2, wit)
  if n < 3:
    ctx.sample({'signal_name': name, 'payload': payload, 'json': text})


def history_leg(ctx, rng, name, payload, text, e, e2, wit):
  """the result of a call depends on its own input only: decoded events are fresh objects, nothing is remembered"""
  original = copy.deepcopy(payload)
  try:
    # 1. mutate what the first decode returned, decode the same text again
    if mutate_in_place(e2.payload, rng):
      e3 = Event.loads(text)
      ctx.count('second_decodes_after_in_place_mutation')
      if e3.signal_name != name or not exact_equal(e3.payload, original):
        ctx.violation('C26/second-decode-differs', 'decoding the same text again after the first decoded payload had been changed in place gave %r (signal %r); the text encodes %r' % (e3.payload, e3.signal_name, original), dict(wit, json=text))
        return
    # 2. mutate the original event, dump it again
    if e is not None and mutate_in_place(e.payload, rng):
      now = copy.deepcopy(e.payload)
      e4 = Event.loads(Event.dumps(e))
      ctx.count('second_dumps_after_in_place_mutation')
      if not exact_equal(e4.payload, now):
        ctx.violation('C26/second-dumps-differs', 'after the event payload was changed in place to %r a second round trip gave %r' % (now, e4.payload), wit)
        return
    # 3. a look-alike payload under the same name, right after the original
    changed = []
    twin = look_alike(original, rng, changed)
    if changed:
      e5 = Event.loads(Event.dumps(Event(signal=name, payload=twin)))
      ctx.count('look_alike_round_trips')
      if e5.signal_name != name or not exact_equal(e5.payload, twin):
        ctx.violation('C26/payload-differs', 'round trip of %r (made right after the round trip of the look-alike %r under the same name) gave %r' % (twin, original, e5.payload), wit)
  except Exception as ex:
    ctx.violation('C26/round-trip-raises', 'repeated dumps/loads raised %s: %s' % (type(ex).__name__, ex), wit)
