"""C18 -- instrumentation never changes chart behaviour."""
from vt import chartgen as cg, hosts

ID = 'C18'
ENGINE = 'chartgen+model'
RULE = ('one generated chart + start state + event script is run under every configuration of {states spied, not} x '
        '{plain, instrumented, queued (instrumented T/F), active object (named/unnamed, instrumented T/F)} x {live_spy} x '
        '{live_trace} (50 configurations, plus 14 handler-style configurations: states carrying a foreign functools.wraps decorator (the user\'s own timing / logging wrapper) - alone, UNDER spy_on, or two of them stacked - on every host, plus 4-5 MIXED-decoration configurations in which only a random half of the chart\'s states carry spy_on; active objects run on their real threads, one event at a time, synchronised by a '
        'harness semaphore released at the end of next_rtc); the ground-truth log (offers, guard evaluations, entries, exits, '
        'inits in order), the rest state after every step and any exception are compared with the plain un-spied run; in half of the cases the chart object is started a SECOND time at the end (after clear_trace() where the host keeps a trace) and that start is compared too. '
        'Every fifth case instead runs an active object with posters racing its thread under detsched, once with live output off and with each live flag combination on: the set of dispatched events and thread survival must be the same. '
        'distinct_nontrivial = distinct (configuration, number of transitions in the script, max depth) tuples')
CASES = {'quick': 400, 'thorough': 30000}
BUDGET = {'quick': 150, 'thorough': 300}
REQUIRE = {'configs_compared': 2000, 'ao_configs_compared': 200, 'transitions': 376, 'concurrent_live_cases': 26, 'handler_style_configs_compared': 1000, 'cases_with_a_second_start': 58, 'mixed_decoration_configs_compared': 426}
ASSUME = ['the plain un-spied run is the reference (tied to the model by C01-C03)']
CONFIGS = hosts.all_configs()
STYLE_CONFIGS = hosts.style_configs()


def concurrent_live_case(ctx, n):
  """an active object with posters racing its thread (detsched): the same workload with live output off and on must
  dispatch the same events; no thread may die in one configuration only"""
  from vt.checks import c05
  rng = ctx.rng('live', n)
  plans, fan, nev = c05.gen_plan(rng)
  spied = True
  outcomes = {}
  sub = rng.randrange(1 << 30)
  import random
  for live in (None, (True, False), (True, True), (False, True)):
    r2 = random.Random(sub)
    result, s, hist, ao = c05.run_scenario(ctx, r2, plans, fan, nev, spied, True, extras={'live': live} if live else None)
    outcomes[live] = (result.get('verdict'), sorted(d['uid'] for d in hist.dispatch if d['sig'] == 'EVT'), result.get('thread_exceptions'))
  ctx.count('concurrent_live_cases')
  ref = outcomes[None]
  ctx.distinct(('concurrent-live', len(plans), nev))
  for live, oc in outcomes.items():
    if live is None:
      continue
    if oc[1] != ref[1] or bool(oc[2]) != bool(ref[2]) or oc[0] != ref[0]:
      ctx.violation('C18/live-output-changes-behaviour-under-concurrent-posts',
                    'active object with racing posters: live_spy=%s live_trace=%s -> verdict %s, %d events dispatched, thread exceptions %r; live output off -> verdict %s, %d events dispatched, thread exceptions %r' % (
                      live[0], live[1], oc[0], len(oc[1]), oc[2], ref[0], len(ref[1]), ref[2]), {'plans': plans, 'fan': fan, 'live': live})
      return


def run_case(ctx, n):
  if n % 5 == 4:
    return concurrent_live_case(ctx, n)
  rng = ctx.rng('case', n)
  spec = cg.gen_spec(rng, nmax=rng.choice([6, 10, 16]), name_style=rng.choice(cg.NAME_STYLES), clause_queries=n % 2 == 0)
  start = rng.randrange(spec['n'])
  script = cg.gen_script(rng, spec, rng.randint(4, 16))
  restart = rng.randrange(spec['n']) if rng.random() < 0.5 else None     # the chart is started a second time at the end of the script
  if restart is not None:
    ctx.count('cases_with_a_second_start')
  ref = hosts.run_config(spec, start, script, {'host': 'plain', 'spied': False, 'restart': restart})
  if ref.error is not None:
    ctx.count('reference_errors')
    return
  ntran = sum(1 for lg in ref.step_logs if any(r[0] in ('entry', 'exit') for r in lg))
  ctx.count('transitions', ntran)
  if ctx.tier == 'quick':
    ao_cfgs = [c for c in CONFIGS if c['host'] == 'ao']
    cfgs = [c for c in CONFIGS if c['host'] != 'ao'] + rng.sample(ao_cfgs, 6) + [c for c in STYLE_CONFIGS if c['host'] != 'ao'] + rng.sample([c for c in STYLE_CONFIGS if c['host'] == 'ao'], 2)
  else:
    cfgs = CONFIGS + STYLE_CONFIGS
  # MIXED decoration: only some of the chart's states carry spy_on (a different random half in every case), on every host
  mixed = [{'host': 'plain', 'spied': True, 'mixed': n}, {'host': 'instr', 'spied': True, 'mixed': n},
           {'host': 'queued', 'spied': True, 'mixed': n, 'instrumented': True}, {'host': 'queued', 'spied': True, 'mixed': n, 'instrumented': True, 'live_spy': True, 'live_trace': True},
           {'host': 'ao', 'spied': True, 'mixed': n, 'instrumented': True, 'named': rng.random() < 0.5}]
  cfgs = list(cfgs) + (mixed if ctx.tier != 'quick' else mixed[:3] + rng.sample(mixed[3:], 1))
  for cfg in cfgs:
    if cfg['host'] == 'plain' and not cfg['spied']:
      continue
    name = hosts.cfg_name(cfg)
    try:
      res = hosts.run_config(spec, start, script, dict(cfg, restart=restart))
    except hosts.Inconclusive as ex:
      ctx.count('inconclusive_runs')
      continue
    ctx.count('configs_compared')
    if cfg.get('deco'):
      ctx.count('handler_style_configs_compared')
    if cfg.get('mixed') is not None:
      ctx.count('mixed_decoration_configs_compared')
    if cfg['host'] == 'ao':
      ctx.count('ao_configs_compared')
    ctx.distinct((name, ntran, max(cg.depth_of(spec['parent'], i) for i in range(spec['n']))))
    wit = {'spec': spec, 'start': start, 'script': script, 'config': cfg}
    grp = 'spied-on-plain-host' if (cfg['host'] == 'plain') else ('unnamed-active-object-unspied' if (cfg['host'] == 'ao' and not cfg['named'] and not cfg['spied']) else name.split('+')[0])
    if res.error is not None:
      ctx.violation('C18/exception-only-in-configuration/' + grp,
                    'configuration %s raised %s at step %s; the plain un-spied run did not' % (name, res.error, res.error_step), wit)
      continue
    if res.start_log != ref.start_log or res.rest[0] != ref.rest[0]:
      ctx.violation('C18/start-differs/' + grp, 'configuration %s: start log %r rest %s; reference %r rest %s' % (name, res.start_log, res.rest[0], ref.start_log, ref.rest[0]), wit)
      continue
    for k in range(len(script)):
      if res.step_logs[k] != ref.step_logs[k] or res.rest[k + 1] != ref.rest[k + 1]:
        ctx.violation('C18/step-differs/' + grp, 'configuration %s step %d (%s): log %r rest %s; reference %r rest %s' % (
          name, k, script[k], res.step_logs[k], res.rest[k + 1], ref.step_logs[k], ref.rest[k + 1]), dict(wit, failing_step=k))
        break
    else:
      if restart is not None and cfg['host'] != 'ao' and (res.restart_log != ref.restart_log or res.restart_rest != ref.restart_rest):
        ctx.violation('C18/start-differs/' + grp, 'configuration %s, second start_at (%s) of the same chart object: log %r rest %s; reference %r rest %s' % (
          name, spec['names'][restart], res.restart_log, res.restart_rest, ref.restart_log, ref.restart_rest), dict(wit, second_start=restart))
  if n < 2:
    ctx.sample({'spec': spec, 'start': start, 'script': script, 'second_start': restart, 'configs': [hosts.cfg_name(c) for c in cfgs][:8]})
