"""C12 -- stop() ends the active object's thread and its timed sources."""
import collections

import miros.activeobject as AO
from miros.event import Event
from vt import detsched as ds, aosim, timersim

ID = 'C12'
ENGINE = 'detsched'
TECHNIQUE = 'runtime monitoring under a deterministic cooperative scheduler with a virtual clock: happens-after checker (no dispatch and no timed posting after stop() returned), thread liveness, liveness of a second object and of the fabric, exact deadlock detection'
RULE = ('an ActiveObject with 0-3 timed sources (heart beats, 20-shot sources and time-out style one-shots that are still pending at the stop), 0-3 poster threads and a handler that may post, a SECOND active object and a plain queue '
        'subscribed to the fabric; stop() is called at a random virtual instant (in part of the runs while the current step of the object is arming a further timed source, in part while an application thread arms one (its arming call - or, in the other runs, the stop() call itself - held at a random point by an injected virtual delay): such a source must be silent after stop() returned whenever its arming call had returned, or it had already posted, before stop() was called) (coinciding with a timer instant in half of the runs) from '
        'the harness thread or - in a third of the outside runs - from a handler of the SECOND active object (a supervisor stopping a worker; in most of these runs both objects carry the same name) (in part of the harness-thread runs AFTER the object\'s thread has already ended because the fabric had been stopped and restarted) or from inside one of the object\'s own handlers. After stop() returned from outside: the object\'s thread has '
        'ended, no dispatch-enter record and no posting by one of its timed sources carries a later step, a post to the second object is '
        'still dispatched and a fabric publication still reaches its subscriber; stop() inside a handler: no exception escapes, no further '
        'step runs after the current one, the thread has ended at quiescence; stop() never deadlocks. distinct_nontrivial = distinct '
        '(inside/outside, sources, posters, context-switch sequence prefix) tuples')
CASES = {'quick': 1200, 'thorough': 80000}
BUDGET = {'quick': 150, 'thorough': 300}
REQUIRE = {'runs': 400, 'stop_from_outside': 200, 'stop_from_handler': 150, 'runs_with_timed_sources': 300, 'stop_coincides_with_posting': 100, 'step_arms_timed_source_during_stop': 100,
           'application_thread_arms_source_around_stop': 100, 'application_armed_source_started_before_stop': 25, 'arming_call_held_by_injected_delay': 60, 'stop_call_held_by_injected_delay': 20, 'stop_called_after_the_thread_had_already_ended': 12, 'stop_called_by_a_handler_of_another_object': 40, 'stop_called_by_a_namesake_object': 20, 'runs_with_a_one_shot_source': 100}
ASSUME = ['instantaneous-computation time model']
ANNOUNCE_CASES = True


def run_case(ctx, n):
  rng = ctx.rng('case', n)
  one_shots = []
  sources = timersim.gen_sources(rng, nmax=3, times_max=0) if rng.random() < 0.75 else []
  for src in sources:
    src['times'] = rng.choice([0, 0, 20, 1])
    src['start_delay'] = 0.0
    if src['times'] == 1:
      # a time-out style ONE-SHOT that is still pending when stop() is called in most runs: it must never fire afterwards
      src['deferred'] = True
      src['period'] = rng.choice([0.1, 1.0, 2.5])
      one_shots.append(src['i'])
  nposters = rng.randint(0, 3)
  inside = rng.random() < 0.4
  pol = aosim.policy_for(rng, est_len=1200, fair_suffix=False)
  s = ds.Sched(seed=rng.randrange(1 << 30), max_steps=3000000, horizon=1e9, **pol)
  aosim.install(s)
  run = timersim.TimerRun()
  histB = aosim.History()
  rec = {}
  try:
    # stop() of the first object called by the SECOND object, from one of its handlers (a supervisor stopping a worker): for the
    # first object that is a stop() from another thread; in most of these runs the two objects carry the same name
    peer = (not inside) and rng.random() < 0.3
    namesake = peer and rng.random() < 0.6
    ao = aosim.make_ao(run.hist, name='A', instrumented=True)
    aoB = aosim.make_ao(histB, name='A' if namesake else 'B', instrumented=True)

    def do_stop(chart):
      rec['call'], rec['call_clock'] = ds.S.steps, ds.S.clock
      try:
        chart.stop()
      except BaseException as ex:
        if isinstance(ex, (ds.Abort, ds.Verdict)):
          raise
        rec['exc'] = repr(ex)
      rec['alive_at_return'] = chart.thread.is_alive()
      rec['ret'] = ds.S.steps
    armsrc = {'i': 50, 'sig': 'TICK_ARMED', 'kind': rng.choice(['fifo', 'lifo']), 'period': rng.choice([0.01, 0.05]), 'times': 0,
              'deferred': rng.choice([True, False]), 'start_delay': 0.0}

    def do_arm(chart):
      timersim.start_source(chart, run, armsrc)
    st = timersim.make_state(run, [do_stop, do_arm], spied=rng.random() < 0.5)
    arm_in_last_step = (not inside) and rng.random() < 0.4
    # an application thread (not the object's own) arms a further timed source around the instant of the stop() from outside
    ext_arm = (not inside) and rng.random() < 0.5
    extsrc = {'i': 60, 'sig': 'TICK_EXT', 'kind': rng.choice(['fifo', 'lifo']), 'period': rng.choice([0.01, 0.05]), 'times': 0,
              'deferred': rng.choice([False, False, True]), 'start_delay': 0.0}
    ext_rec = {}
    ext_more = rng.randint(0, 5)
    fanB = {}
    stB = aosim.make_state(histB, fanB, spied=True, name='b_state')
    if peer:
      from miros.event import signals as _sig, return_status as _RS

      def b_supervisor(chart, e):
        if e.signal in (_sig.ENTRY_SIGNAL, _sig.INIT_SIGNAL, _sig.EXIT_SIGNAL):
          return _RS.HANDLED
        if e.signal_name == 'STOP_PEER':
          do_stop(ao)
          return _RS.HANDLED
        if e.signal_name == 'EVT':
          return _RS.HANDLED
        chart.temp.fun = chart.top
        return _RS.SUPER
      stB = b_supervisor
      ctx.count('stop_called_by_a_handler_of_another_object')
      if namesake:
        ctx.count('stop_called_by_a_namesake_object')
    fabric_q = collections.deque()
    coincide = bool(sources) and rng.random() < 0.5
    try:
      ao.start_at(st)
      aoB.start_at(stB)
      AO.ActiveFabric().subscribe(fabric_q, Event(signal='PUB_C12'))
      for src in sources:
        timersim.start_source(ao, run, src)
      plans = [[('fifo' if rng.random() < 0.7 else 'lifo', 1000 * (p + 1) + k) for k in range(rng.randint(1, 5))] for p in range(nposters)]
      hist_posts = aosim.History()

      def tick_poster(plan):
        for kind, uid in plan:
          (ao.post_fifo if kind == 'fifo' else ao.post_lifo)(Event(signal='TICK_P', payload=uid))
      ths = [ds.SThread(target=tick_poster, args=(pl,)) for pl in plans]
      for t in ths:
        t.start()
      if coincide:
        tsrc = rng.choice(sources)
        ts = run.t0[tsrc['i']] + rng.randint(1, 3) * tsrc['period']
      else:
        ts = s.clock + rng.choice([0.0, 0.004, 0.0333, 0.21])
      if ext_arm and rng.random() < 0.6:
        # fault injection: the arming thread is held (virtual sleep) at a random yield point inside the timed-post call, so
        # that stop() and the new source's timer thread run while the arming call is half done
        s.inject = {'match': lambda me, loc: me.role == 'ext_armer' and isinstance(loc, tuple) and loc[0] == '__post_event',
                    'visit': rng.randint(1, 40), 'sleep': rng.choice([0.0008, 0.002, 0.02])}
        ctx.count('arming_call_held_by_injected_delay')
      elif ext_arm:
        # ... or the other way round: the thread inside stop() is held at a random line of stop() while the application thread
        # arms its sources
        s.inject = {'match': lambda me, loc: isinstance(loc, tuple) and loc[0] == 'stop' and me.role != 'ext_armer',
                    'visit': rng.randint(1, 30), 'sleep': rng.choice([0.0008, 0.002])}
        ctx.count('stop_call_held_by_injected_delay')
      if ext_arm:
        def ext_armer():
          ds.STime.sleep(max(0.0, ts - rng.choice([0.0, 0.0005, 0.0005]) - ds.S.clock))
          ext_rec['call'] = ds.S.steps
          timersim.start_source(ao, run, extsrc)
          ext_rec['ret'] = ds.S.steps
          for j in range(ext_more):
            # further sources armed back to back (long period: they never post within the run)
            timersim.start_source(ao, run, {'i': 61 + j, 'sig': 'TICK_EXT_MORE', 'kind': 'fifo', 'period': 500.0, 'times': 1, 'deferred': True, 'start_delay': 0.0})
        ths.append(ds.SThread(target=ext_armer))
        ths[-1].start()
        ctx.count('application_thread_arms_source_around_stop')
      ds.STime.sleep(max(0.0, ts - s.clock))
      dead_first = (not inside) and (not peer) and (not ext_arm) and (not arm_in_last_step) and rng.random() < 0.3
      if dead_first:
        # the object's thread has already ended for another reason when stop() is called: the fabric was stopped and the
        # object woke up (it halts at its next wake-up); the fabric is restarted before anybody else wakes.  stop() must still
        # cancel the object's timed sources
        AO.ActiveFabric().stop()
        ao.post_fifo(Event(signal='TICK_P', payload=-5))
        for _ in range(200):
          if not ao.thread.is_alive():
            break
          ds.STime.sleep(0.0)
        AO.ActiveFabric().start()
        if not ao.thread.is_alive():
          ctx.count('stop_called_after_the_thread_had_already_ended')
      if inside:
        ao.post_fifo(Event(signal='DO', payload=0))
        ds.STime.sleep(0.0007)
      else:
        if arm_in_last_step:
          # the object's current step arms a timed source while stop() is called from outside
          ao.post_fifo(Event(signal='DO', payload=1))
          ctx.count('step_arms_timed_source_during_stop')
        if peer:
          aoB.post_fifo(Event(signal='STOP_PEER'))
          ds.S.wait_until(lambda: 'ret' in rec or not aoB.thread.is_alive(), 'stop() called by the second object returns')
        else:
          do_stop(ao)
      alive_after = rec.get('alive_at_return', ao.thread.is_alive())
      # the rest of the system must keep working
      aoB.post_fifo(Event(signal='EVT', payload=424242))
      AO.ActiveFabric().publish(Event(signal='PUB_C12', payload=77))
      ds.STime.sleep(rng.choice([0.0777, 0.3123, 2.6011]))
      for t in ths:
        t.join()
      alive_end = ao.thread.is_alive()
    except ds.Verdict as v:
      where = 'stop() did not return' if ('call' in rec and 'ret' not in rec) else 'scenario'
      ctx.violation('C12/%s/%s' % (v.kind, 'in-stop' if ('call' in rec and 'ret' not in rec) else 'elsewhere'),
                    '%s: %s; blocked threads %r' % (where, v.kind, (v.info or {}).get('blocked')), {'inside': inside, 'sources': len(sources), 'posters': nposters, 'policy': pol})
      return
    ctx.count('runs')
    if one_shots:
      ctx.count('runs_with_a_one_shot_source', len(one_shots))
    ctx.count('stop_from_handler' if inside else 'stop_from_outside')
    if sources:
      ctx.count('runs_with_timed_sources')
    if coincide:
      ctx.count('stop_coincides_with_posting')
    wsrc = [dict((k, v) for k, v in x.items() if k != 'event') for x in sources]
    wit = {'sources': wsrc, 'posters': nposters, 'inside_handler': inside, 'stop': rec, 'policy': pol, 'step_arms_source_during_stop': arm_in_last_step, 'armed': 50 in run.ids}
    ctx.distinct((inside, len(sources), nposters, coincide, s.signature()[:50]))
    if 'ret' not in rec:
      ctx.violation('C12/stop-never-ran', 'stop() was never executed / did not return', wit)
      return
    if 'exc' in rec:
      ctx.violation('C12/stop-raises', 'stop() raised %s' % rec['exc'], wit)
      return
    exc = [(t.name, t.role, repr(t.exc)) for t in s.threads if t.exc is not None]
    if exc:
      ctx.violation('C12/exception-in-thread', 'a thread died: %r' % exc, wit)
      return
    if not inside and alive_after:
      ctx.violation('C12/thread-alive-after-stop', 'stop() returned but the object\'s thread is still alive', wit)
      return
    if alive_end:
      ctx.violation('C12/thread-never-ends', 'the object\'s thread is still alive at the end of the run (stop from %s)' % ('a handler' if inside else 'outside'), wit)
      return
    if inside:
      # no further step after the one that called stop
      stop_step = [d for d in run.hist.dispatch if d['sig'] == 'DO']
      later = [d for d in run.hist.dispatch if stop_step and d['enter'] > stop_step[0]['exit']]
      if later:
        ctx.violation('C12/step-after-stop-in-handler', '%d further run-to-completion steps ran after the step that called stop()' % len(later), wit)
        return
    else:
      later = [d for d in run.hist.dispatch if d['enter'] > rec['ret']]
      if later:
        ctx.violation('C12/step-after-stop-returned', '%d run-to-completion steps started after stop() had returned' % len(later), wit)
        return
    allposts = timersim.postings(ao)
    ext_posts = [p for p in allposts if p[0] == 60]
    if ext_posts and not inside:
      # the source armed by an application thread: it certainly "was started" when its arming call had returned, or when it had
      # already posted, before stop() was called; an arming call that merely overlaps stop() may take effect after it (not judged)
      started_before = ('ret' in ext_rec and ext_rec['ret'] < rec['call']) or any(p[2] < rec['call'] for p in ext_posts)
      late_ext = [p for p in ext_posts if p[2] > rec['ret']]
      if started_before:
        ctx.count('application_armed_source_started_before_stop')
        if late_ext:
          ctx.violation('C12/timed-post-after-stop-returned/source-armed-by-application-thread', 'a timed source armed by an application thread (arming call %s; first posting at step %d, stop() called at step %d) posted %d event(s) after stop() had returned (step %d)' % (
            'returned at step %d' % ext_rec['ret'] if 'ret' in ext_rec else 'still running', ext_posts[0][2], rec['call'], len(late_ext), rec['ret']), dict(wit, arming=ext_rec, late=late_ext[:4]))
          return
      elif late_ext:
        ctx.count('application_arm_overlapping_stop_not_judged')
    late_posts = [p for p in allposts if p[0] is not None and p[0] < 100 and p[0] != 60 and p[2] > rec['ret']]
    if late_posts:
      key = 'C12/timed-post-after-stop-returned'
      if len(late_posts) == 1 and abs(late_posts[0][3] - rec['call_clock']) < 1e-9:
        key += '/timer-between-flag-check-and-post'
      ctx.violation(key, 'timed source(s) of the stopped object posted %d event(s) after stop() had returned, first at virtual time %r' % (len(late_posts), late_posts[0][3]), dict(wit, late=late_posts[:4]))
      return
    if 424242 not in [d['uid'] for d in histB.dispatch]:
      ctx.violation('C12/other-object-stopped', 'a second active object no longer dispatches after stop() of the first', wit)
      return
    if [e.payload for e in fabric_q] != [77]:
      ctx.violation('C12/fabric-stopped', 'a fabric publication made after stop() reached its subscriber %d times' % len(fabric_q), wit)
      return
    if n < 3:
      ctx.sample(wit)
  finally:
    z = ds.uninstall()
    if z:
      ctx.count('zombie_threads', z)
