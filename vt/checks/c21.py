"""C21 -- live spy/trace output emits every line once, in order, whatever the clock says."""
import datetime

import miros.hsm as H
from vt import qcheck

ID = 'C21'
ENGINE = 'chartgen+model'
RULE = ('C19/C20 runs with live_spy and/or live_trace switched on, on HsmWithQueues (callbacks called directly) and ActiveObject (through '
        'the writer thread, drained before comparing), under a scripted clock substituted for miros.hsm.stdlib_datetime: real, frozen '
        '(every now() returns the same instant), coarse (ticks every k calls), backwards (decreasing). The registered live-spy callback '
        'must receive exactly the concatenation of the step spy logs (as computed from the ground-truth invocation log) and the live-trace '
        'callback exactly one formatted record per new trace record, in order (clear_spy() / clear_trace() calls by the client in between do not take anything back). Every sixth case is an active object with live spy on and poster threads racing it under detsched: its thread must survive and the callback must receive the invocation and HOOK line of every dispatched event once, in order. distinct_nontrivial = distinct (host, clock, live flags, '
        'spy lines, trace records) tuples')
CASES = {'quick': 2500, 'thorough': 100000}
BUDGET = {'quick': 150, 'thorough': 300}
REQUIRE = {'live_spy_runs': 500, 'live_trace_runs': 500, 'clock_frozen': 100, 'clock_coarse': 100, 'clock_backwards': 100, 'live_trace_records': 5000, 'concurrent_live_runs': 150, 'concurrent_live_dispatches_checked': 1000}
ANNOUNCE_CASES = True
ASSUME = ['the clock is substituted only through the module global miros.hsm.stdlib_datetime (strftime etc. stay real)']

BASE = datetime.datetime(2024, 1, 1, 12, 0, 0)


class Clock(datetime.datetime):
  mode, calls, k = 'real', 0, 7

  @classmethod
  def now(cls, tz=None):
    cls.calls += 1
    if cls.mode == 'real':
      return datetime.datetime.now()
    if cls.mode == 'frozen':
      return BASE
    if cls.mode == 'coarse':
      return BASE + datetime.timedelta(milliseconds=16 * (cls.calls // cls.k))
    return BASE - datetime.timedelta(microseconds=cls.calls)   # backwards


def concurrent_case(ctx, n):
  """an active object with live spy (and trace) on while posters race its thread under detsched: the object's thread must
  survive, and the callback must have received the line of every handler invocation exactly once, in dispatch order"""
  from vt.checks import c05
  rng = ctx.rng('conc', n)
  plans, fan, nev = c05.gen_plan(rng)
  live = (True, rng.random() < 0.5)
  result, s, hist, ao = c05.run_scenario(ctx, rng, plans, fan, nev, True, True, extras={'live': live})
  ctx.count('concurrent_live_runs')
  wit = {'concurrent_posters': True, 'plans': plans, 'fan': fan, 'live': live, 'policy': s.policy, 'switch_trail_tail': s.trail[-25:]}
  if result.get('verdict') is not None:
    ctx.count('other_property_disagreements')      # posting that does not return is C05's business
    return
  ctx.distinct(('conc',) + s.signature()[:60])
  if result['thread_exceptions']:
    ctx.violation('C21/live-output-kills-thread', 'with live spy on and posters racing the object, a thread died: %r; lines of later steps are never handed to the callback' % (result['thread_exceptions'],), wit)
    return
  try:
    ds_q = ao.writer._queue
    import queue as _q
    if _q.Queue.qsize(ds_q):
      ctx.count('other_property_disagreements')
      return
  except Exception:
    pass
  ndisp = sum(1 for d in hist.dispatch if d['sig'] == 'EVT')
  lines = result.get('live_spy_lines', [])
  calls = [l for l in lines if l == 'EVT:c04_state']
  hooks = [l for l in lines if l == 'EVT:c04_state:HOOK']
  ctx.count('concurrent_live_dispatches_checked', ndisp)
  if len(calls) != ndisp or len(hooks) != ndisp:
    ctx.violation('C21/live-spy-differs', 'with posters racing the object, %d events were dispatched (each handled internally) but the live spy callback received %d invocation lines and %d HOOK lines' % (ndisp, len(calls), len(hooks)), dict(wit, live_tail=lines[-12:]))
    return
  # production order: an invocation line is directly followed by its HOOK line (the handler appends nothing in between
  # unless it posts: POST markers of the handler's own posts, and of racing posters, may sit between them)
  pos = [i for i, l in enumerate(lines) if l in ('EVT:c04_state', 'EVT:c04_state:HOOK')]
  seq = [lines[i] for i in pos]
  if seq != ['EVT:c04_state', 'EVT:c04_state:HOOK'] * ndisp:
    ctx.violation('C21/live-spy-differs', 'with posters racing the object the live spy lines of the handler invocations came out of production order: %r' % seq[:12], wit)


def run_case(ctx, n):
  if n % 6 == 5:
    return concurrent_case(ctx, n)
  rng = ctx.rng('clock', n)
  Clock.mode = rng.choice(['real', 'frozen', 'coarse', 'backwards'])
  Clock.calls = 0
  Clock.k = rng.choice([3, 7, 50, 1000])
  saved = H.stdlib_datetime
  nv = ctx.nviol
  H.stdlib_datetime = Clock
  try:
    r = qcheck.run_qcase(ctx, n, ('C21',), with_queries=n % 2 == 0, live=True, long_run=rng.random() < 0.1, clears=True)
  finally:
    H.stdlib_datetime = saved
  ctx.count('clock_' + Clock.mode)
  if ctx.nviol > nv:
    ctx.count('violating_runs_clock_' + Clock.mode)
  if r is None:
    return
  res, spec, cfg = r
  ctx.distinct((cfg['host'], Clock.mode, cfg['live_spy'], cfg['live_trace'], len(res.live_spy), len(res.live_trace)))
