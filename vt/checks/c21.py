"""C21 -- live spy/trace output emits every line once, in order, whatever the clock says."""
import datetime

import miros.hsm as H
from vt import qcheck

ID = 'C21'
ENGINE = 'chartgen+model'
RULE = ('C19/C20 runs with live_spy and/or live_trace switched on, on HsmWithQueues (callbacks called directly) and ActiveObject (through '
        'the writer thread, drained before comparing), under a scripted clock substituted for miros.hsm.stdlib_datetime: real, frozen '
        '(every now() returns the same instant), coarse (ticks every k calls), backwards (decreasing). The registered live-spy callback '
        'must receive exactly the concatenation of the step spy logs (as computed from the ground-truth invocation log) and the live-trace '
        'callback exactly one formatted record per new trace record, in order. distinct_nontrivial = distinct (host, clock, live flags, '
        'spy lines, trace records) tuples')
CASES = {'quick': 2500, 'thorough': 100000}
BUDGET = {'quick': 40, 'thorough': 300}
REQUIRE = {'live_spy_runs': 500, 'live_trace_runs': 500, 'clock_frozen': 100, 'clock_coarse': 100, 'clock_backwards': 100, 'live_trace_records': 5000}
ASSUME = ['the clock is substituted only through the module global miros.hsm.stdlib_datetime (strftime etc. stay real)']

BASE = datetime.datetime(2024, 1, 1, 12, 0, 0)


class Clock(datetime.datetime):
  mode, calls, k = 'real', 0, 7

  @classmethod
  def now(cls, tz=None):
    cls.calls += 1
    if cls.mode == 'real':
      return datetime.datetime.now()
    if cls.mode == 'frozen':
      return BASE
    if cls.mode == 'coarse':
      return BASE + datetime.timedelta(milliseconds=16 * (cls.calls // cls.k))
    return BASE - datetime.timedelta(microseconds=cls.calls)   # backwards


def run_case(ctx, n):
  rng = ctx.rng('clock', n)
  Clock.mode = rng.choice(['real', 'frozen', 'coarse', 'backwards'])
  Clock.calls = 0
  Clock.k = rng.choice([3, 7, 50, 1000])
  saved = H.stdlib_datetime
  nv = ctx.nviol
  H.stdlib_datetime = Clock
  try:
    r = qcheck.run_qcase(ctx, n, ('C21',), with_queries=n % 2 == 0, live=True, long_run=rng.random() < 0.1)
  finally:
    H.stdlib_datetime = saved
  ctx.count('clock_' + Clock.mode)
  if ctx.nviol > nv:
    ctx.count('violating_runs_clock_' + Clock.mode)
  if r is None:
    return
  res, spec, cfg = r
  ctx.distinct((cfg['host'], Clock.mode, cfg['live_spy'], cfg['live_trace'], len(res.live_spy), len(res.live_trace)))
