"""C14 -- queued charts dispatch posted events in deque order, one per step."""
from vt import qcheck

ID = 'C14'
RULE = ('generated charts whose handlers post fifo/lifo at reactions and at entry/exit/init (bounded fan-out) on HsmWithQueues and '
        'on ActiveObject; random histories of external post_fifo/post_lifo, each followed by next_rtc until the queue is empty, one '
        'snapshot per step; the signal of the first handler invocation of every step must equal the front of a collections.deque '
        'model driven by the same operation history (external posts, handler posts taken from the ground-truth log), the queue '
        'length must match after every step and no step may run when the model queue is empty. complete_circuit is exercised '
        'separately per case; in a third of these runs some of the posted events make their step FAIL (the handler raises): the client catches the exception and keeps calling complete_circuit / next_rtc, and every event - the failed ones too - must have been dispatched exactly once, in deque order. Every eighth case lets 2-3 threads post (lifo and fifo, 1-2 posts each) at the same time to a chart that is not stepping, under detsched with line-level yield points inside post_fifo/post_lifo, on an empty queue or one holding 1-2 events: the queue afterwards must hold an order that some sequential order of the same calls produces on a collections.deque (all merges enumerated). distinct_nontrivial = distinct (host, steps, handler posts, lifo share) tuples with >= 1 handler post')
CASES = {'quick': 3000, 'thorough': 200000}
BUDGET = {'quick': 150, 'thorough': 300}
REQUIRE = {'steps': 20000, 'handler_posts': 2000, 'complete_circuit_runs': 500, 'steps_that_failed_and_were_survived': 300, 'racing_post_runs': 120, 'racing_post_runs_on_an_empty_queue': 60}
ASSUME = ['queue capacity (500) is not reached (overflow is C16)']
ENGINE = 'chartgen+model'


def racing_posts_case(ctx, n):
  """two or three threads post to a chart that is not stepping (a chart's posting calls are made from other threads as a matter
  of course): whatever the interleaving, the queue must afterwards hold an order that SOME sequential order of the very same
  posting calls produces on a collections.deque - a lifo post whose 'front' is decided before and carried out after somebody
  else's post yields an order that no sequential execution has"""
  import itertools
  import collections
  import miros.hsm as H
  from miros.event import Event
  from vt import detsched as ds, aosim
  rng = ctx.rng('racing', n)
  nthreads = rng.randint(2, 3)
  plans = [[(rng.choice(['lifo', 'fifo']), (i, j)) for j in range(rng.randint(1, 2))] for i in range(nthreads)]
  if not any(k == 'lifo' for pl in plans for k, _ in pl):
    plans[0][0] = ('lifo', plans[0][0][1])
  start_with = rng.choice([0, 0, 0, 1, 2])
  pol = dict(policy='random', p_switch=rng.choice([0.1, 0.3, 0.6])) if rng.random() < 0.7 else dict(policy='pct', pct_depth=3, pct_len=150)
  s = ds.Sched(seed=rng.randrange(1 << 30), max_steps=500000, **pol)
  ds.install(s, line_mods=[H], line_funcs={H: aosim.HSM_FUNCS}, log_deque=False)
  try:
    chart = H.HsmWithQueues(instrumented=rng.random() < 0.5)
    for i in range(start_with):
      chart.post_fifo(Event(signal='C14_R0', payload=('there', i)))

    def worker(i):
      for kind, tag in plans[i]:
        (chart.post_lifo if kind == 'lifo' else chart.post_fifo)(Event(signal='C14_R%d' % (1 + i), payload=tag))
    wit = {'plans_per_thread': plans, 'events_in_the_queue_at_the_start': start_with, 'policy': pol}
    try:
      ths = [ds.SThread(target=worker, args=(i,)) for i in range(nthreads)]
      for t in ths:
        t.start()
      for t in ths:
        t.join()
    except ds.Verdict as v:
      ctx.violation('C14/racing-posts-' + v.kind, 'racing posts ended in %s' % v.kind, wit)
      return
    ctx.count('racing_post_runs')
    if start_with == 0:
      ctx.count('racing_post_runs_on_an_empty_queue')
    ctx.distinct(('racing', tuple(tuple(k for k, _ in pl) for pl in plans), start_with, s.signature()[:20]))
    exc = [(t.name, repr(t.exc)) for t in s.threads if t.exc is not None]
    if exc:
      ctx.violation('C14/racing-posts-exception', 'a posting thread raised: %r' % exc, wit)
      return
    got = [tuple(e.payload) for e in chart.queue]
    # every sequential order of the calls that keeps each thread's own order
    slots = [i for i, pl in enumerate(plans) for _ in pl]
    legal = set()
    for perm in set(itertools.permutations(slots)):
      d = collections.deque(('there', i) for i in range(start_with))
      idx = [0] * nthreads
      for i in perm:
        kind, tag = plans[i][idx[i]]
        idx[i] += 1
        (d.appendleft if kind == 'lifo' else d.append)(tag)
      legal.add(tuple(d))
    wit['queue_afterwards'] = got
    if tuple(got) not in legal:
      ctx.violation('C14/racing-posts-order-no-sequential-execution-has',
                    'after racing posts %r the queue holds %r; the sequential orders of these calls give only %r' % (plans, got, sorted(legal)[:6]), wit)
  finally:
    ds.uninstall()


def run_case(ctx, n):
  if n % 8 == 7:
    return racing_posts_case(ctx, n)
  r = qcheck.run_qcase(ctx, n, ('C14',), allow_defer=False, spied=(True, False), instrumented=(True, False))
  if r is None:
    return
  res, spec, cfg = r
  posts = sum(1 for s in res.steps for x in s['log'] if x[0] == 'act')
  if posts:
    ctx.distinct((cfg['host'], len(res.steps), posts, cfg['spied']))
  complete_circuit_case(ctx, n)


def complete_circuit_case(ctx, n):
  """complete_circuit returns only when the queue is empty, dispatching in deque order"""
  import collections
  from miros.event import Event
  from miros.hsm import HsmWithQueues
  from vt import chartgen as cg
  rng = ctx.rng('cc', n)
  spec = cg.gen_spec(rng, nmax=6, side_acts=True)
  for r in spec['react'].values():
    if 'acts' in r:
      r['acts'] = [a for a in r['acts'] if a[0] not in ('defer', 'recall')]
  for k in list(spec['acts']):
    spec['acts'][k] = [a for a in spec['acts'][k] if a[0] not in ('defer', 'recall')]
  run = cg.Run(spec, spied=rng.random() < 0.5)
  base = cg.counted_host(HsmWithQueues, run)

  class StepFails(Exception):
    """raised by the step of a VT_FAULT event (a handler that fails); the client catches it and keeps driving the chart"""

  class H(base):
    def dispatch(self, e):
      run.log.append(('dispatch', e.signal_name))
      if e.signal_name == 'VT_FAULT':
        raise StepFails()
      base.dispatch(self, e)
  chart = H(instrumented=rng.random() < 0.5)
  faulty = rng.random() < 0.35
  model = collections.deque()
  try:
    chart.start_at(run.fns[rng.randrange(spec['n'])])
  except cg.Budget:
    return
  ops = []
  for _ in range(rng.randint(1, 8)):
    kind, sig = rng.choice(['fifo', 'lifo']), rng.choice(spec['sigs'] + (['VT_FAULT', 'VT_FAULT'] if faulty else []))
    ops.append((kind, sig))
    run.log.append(('act', 'post_' + kind, sig))
    (chart.post_fifo if kind == 'fifo' else chart.post_lifo)(Event(signal=sig))
  use_next_rtc = faulty and rng.random() < 0.5
  failed_steps = 0
  try:
    for attempt in range(40):
      try:
        if use_next_rtc:
          while len(chart.queue) != 0:
            chart.next_rtc()
        else:
          chart.complete_circuit()
        break
      except StepFails:
        failed_steps += 1           # the client catches the failure of that step and keeps driving the chart
  except cg.Budget:
    ctx.count('complete_circuit_budget')
    return
  ctx.count('complete_circuit_runs')
  if failed_steps:
    ctx.count('steps_that_failed_and_were_survived', failed_steps)
  wit = {'spec': spec, 'ops': ops}
  nd = 0
  for r in run.log:
    if r[0] == 'act' and r[1] in ('post_fifo', 'post_lifo'):
      (model.append if r[1] == 'post_fifo' else model.appendleft)(r[2])
    elif r[0] == 'dispatch':
      nd += 1
      want = model.popleft() if model else None
      if want != r[1]:
        ctx.violation('C14/dispatch-order-differs', 'complete_circuit dispatched %s, the deque model has %r at the front' % (r[1], want), wit)
        return
  ctx.count('complete_circuit_dispatches', nd)
  if len(chart.queue) != 0 or model:
    ctx.violation('C14/complete-circuit-left-events', 'complete_circuit returned with %d events queued (model %d)' % (len(chart.queue), len(model)), wit)
