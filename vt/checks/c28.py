"""C28 -- every statement using a thread-safe attribute releases its lock."""
import ast
import importlib
import os
import sys
import tempfile
import threading

from vt import sysx

ID = 'C28'
ENGINE = 'seq'
TECHNIQUE = 'runtime monitoring: grammar-generated statements executed as real source lines with a lock-availability probe from a second thread; concurrent cases under a deterministic cooperative scheduler (opcode-level yield points) with a lock-ownership monitor after every finished statement, partly enumerated systematically (delay-bounded)'
RULE = ('statements generated from a grammar (reads inside arithmetic, every comparison operator, boolean expressions, call and keyword '
        'arguments, subscripts, f-strings, conditional expressions, comprehensions, walrus, lambda, assert, return, if/while/for headers; '
        'augmented assignment of every operator to OTHER names / subscripts / attributes with the attribute on the right; plain, tuple and '
        'annotated assignments to the attribute; augmented assignment of every operator to the attribute itself; two thread-safe '
        'attributes in one statement; the documented "_, _lock = o.a" form; reads through the class - type(o).a, getattr / hasattr on the class; multi-line variants), each emitted as real source lines in a '
        'generated module (the descriptor inspects its caller\'s source) and run against a FRESH class and instance; after the statement '
        'a second thread must be able to take the lock of every thread-safe attribute without blocking. Every third module is then EDITED (the same statements in another order, so every line number carries a different statement) and reloaded, and every statement is run and probed again. Leaks are keyed by the syntactic '
        'class of the statement. Every fourth case is concurrent: 2-4 real threads execute 1-3 statements each on ONE object (o.a += c, '
        'o.a -= c, o.a *= c, o.a = k, x = o.a, o.b += c - forms that release the lock when run alone) under detsched with a yield point '
        'at every bytecode boundary of miros/thread_safe_attributes.py and of the statements; whenever a thread has finished one of its '
        'statements it must not own the lock of either attribute, whatever the other threads did meanwhile. '
        'distinct_nontrivial = distinct AST shapes (ast.dump of the statement with constants abstracted), and distinct context-switch '
        'sequences of the concurrent runs. ' + sysx.RULE_TEXT % (1, 1))
CASES = {'quick': 400, 'thorough': 20000}
BUDGET = {'quick': 150, 'thorough': 600}
REQUIRE = {'statements': 2405, 'probes': 4811, 'plain_reads_ok': 49, 'self_augassign_ok': 100, 'concurrent_runs': 200,
           'concurrent_statements_checked': 300, 'concurrent_switch_between_get_and_set': 40, 'systematic_schedules': 300, 'systematic_scenarios_exhausted': 1, 'statements_run_after_a_reload': 582}
ANNOUNCE_CASES = True
ASSUME = ['one generated statement per function; the probe reads the descriptor\'s lock object (falls back to a timed read when the attribute layout changes)']

TMP = None
SEQ = [0]

AUG_OPS = ['+=', '-=', '*=', '//=', '%=', '**=', '>>=', '<<=', '&=', '^=', '|=', '/=']
CMP_SAFE = ['<', '>', '==', '!=']
CMP_EQ = ['<=', '>=']

# syntactic classes whose leak has one root cause on the pinned tree (the
# per-line regex); a leak in any other class gets its own key
GROUPS = {
  'compare-with-equals-on-read-line': 'C28/compare-with-equals-on-read-line',
  'augassign-to-other-target': 'C28/augassign-to-other-target',
  'operator-text-in-string-or-comment': 'C28/operator-text-in-string-or-comment',
  'comma-equals-unpack': 'C28/comma-equals-unpack',
  'augassign-rhs-reads-same-attribute': 'C28/augassign-rhs-reads-same-attribute',
  'augassign-rhs-reads-other-safe-attribute': 'C28/augassign-rhs-reads-other-safe-attribute',
}


def setup_worker(ctx):
  global TMP
  TMP = tempfile.mkdtemp(prefix='vt-c28-')
  sys.path.insert(0, TMP)


def teardown_worker(ctx):
  import shutil
  shutil.rmtree(TMP, ignore_errors=True)


def gen_statement(rng):
  """returns (class label, [source lines])"""
  k = rng.randint(1, 9)
  aug = rng.choice(AUG_OPS)
  r = rng.randrange(46)
  if r == 0:
    return 'plain-read', ['v = o.a']
  if r == 1:
    return 'arith-read', [rng.choice(['v = o.a + %d', 'v = %d * o.a - x', 'v = (o.a ** 2) %% %d + 1', 'v = -o.a + (x - %d)']) % k]
  if r == 2:
    return 'compare-read', ['v = o.a %s %d' % (rng.choice(CMP_SAFE), k)]
  if r == 3:
    return 'compare-with-equals-on-read-line', ['v = o.a %s %d' % (rng.choice(CMP_EQ), k)]
  if r == 4:
    return 'compare-with-equals-on-read-line', ['v = %d %s o.a %s %d' % (0, rng.choice(['<', '<=']), rng.choice(CMP_EQ), k)]
  if r == 5:
    return 'bool-read', [rng.choice(['v = o.a and x', 'v = not o.a', 'v = o.a or y or x', 'v = o.a is None', 'v = o.a in (0, 1)'])]
  if r == 6:
    return 'call-arg-read', [rng.choice(['v = f(o.a)', 'v = f(x, o.a)', 'v = f(k=o.a)', 'v = f(*[o.a])', 'v = str(o.a).upper()', 'v = f(f(o.a))'])]
  if r == 7:
    return 'subscript-read', [rng.choice(['v = lst[o.a]', 'd[o.a] = 1', "d['k'] = o.a", 'v = lst[o.a:o.a + 1]', 'v = d.get(o.a)'])]
  if r == 8:
    return 'fstring-read', [rng.choice(['v = f"{o.a}"', 'v = f"{o.a!r:>5}"', 'v = "%s" % o.a', 'v = "{}".format(o.a)'])]
  if r == 9:
    return 'conditional-read', [rng.choice(['v = 1 if o.a else 2', 'v = o.a if x else y', 'v = x if y else o.a'])]
  if r == 10:
    return 'comprehension-read', [rng.choice(['v = [o.a for _ in range(2)]', 'v = {i: o.a for i in range(2)}', 'v = [i for i in range(3) if i > o.a]', 'v = sum(o.a for _ in range(2))'])]
  if r == 11:
    return 'walrus-read', [rng.choice(['v = (w := o.a)', 'v = [w := o.a, w]'])]
  if r == 12:
    return 'lambda-read', ['v = (lambda: o.a)()']
  if r == 13:
    return 'assert-read', [rng.choice(['assert o.a == 0', 'assert o.a < 100', 'assert o.a != 5', 'assert o.a is not None', 'assert not o.a, "message"'])]
  if r == 14:
    return 'compare-with-equals-on-read-line', ['assert o.a >= 0']
  if r == 15:
    return 'return-read', ['def inner():', '  return o.a', 'v = inner()']
  if r == 16:
    return 'if-header-read', ['if o.a %s %d:' % (rng.choice(CMP_SAFE), k), '  v = 1']
  if r == 17:
    return 'compare-with-equals-on-read-line', ['if o.a %s %d:' % (rng.choice(CMP_EQ), k), '  v = 1']
  if r == 18:
    return 'while-header-read', ['while o.a > 100:', '  break']
  if r == 19:
    return 'compare-with-equals-on-read-line', ['while o.a >= 100:', '  break']
  if r == 20:
    return 'for-header-read', ['for _ in range(o.a + 1):', '  v = 1']
  if r == 21:
    return 'augassign-to-other-target', ['x %s o.a + 1' % aug]
  if r == 22:
    return 'augassign-to-other-target', ["d['k'] %s o.a + 1" % aug]
  if r == 23:
    return 'augassign-to-other-target', ['other.plain %s o.a + 1' % aug]
  if r == 24:
    return 'operator-text-in-string-or-comment', [rng.choice(['v = (o.a, "%s")' % aug, "v = o.a  # total %s 1" % aug, "v = d.get('%s', o.a)" % aug, 'v = f"{o.a} <= {x}"'])]
  if r == 25:
    return 'comma-equals-unpack', ['v,= [o.a]']
  if r == 26:
    return 'plain-assign', ['o.a = %d' % k]
  if r == 27:
    return 'tuple-assign', [rng.choice(['o.a, x = %d, 2', 'x, o.a = 1, %d', 'o.a, o.b = %d, 3', '(o.a, (x, y)) = %d, (1, 2)']) % k]
  if r == 28:
    return 'annotated-assign', ['o.a: int = %d' % k]
  if r == 29:
    return 'read-then-assign', [rng.choice(['o.a = o.a + %d', 'o.a = x + %d', 'o.a = f(o.a) * %d', 'o.a = o.b + %d']) % k]
  if r in (30, 31, 32):
    return 'self-augassign', ['o.a %s %d' % (aug, k)]
  if r == 33:
    return 'self-augassign', ['o.a %s x + %d' % (aug, k)]
  if r == 34:
    return 'augassign-rhs-reads-same-attribute', ['o.a %s o.a + 1' % rng.choice(['+=', '-=', '*='])]
  if r == 35:
    return 'augassign-rhs-reads-other-safe-attribute', ['o.a %s o.b + 1' % rng.choice(['+=', '-=', '*='])]
  if r == 36:
    return 'lock-request-form', ['_, _lock = o.a']
  if r == 37:
    return 'lock-request-form-used', ['_, _lock = o.a', 'with _lock:', '  v = 1']
  if r == 38:
    return 'multiline-read', ['v = (o.a +', '     %d)' % k]
  if r == 39:
    return 'multiline-read', ['v = [', '  o.a,', '  x,', ']']
  if r == 40:
    return 'multiline-self-augassign', ['o.a %s (' % aug, '  %d)' % k]
  if r == 41:
    return 'multiline-augassign-other-read-on-next-line', ['x %s (' % rng.choice(['+=', '-=']), '  o.a)']
  if r == 42:
    return 'two-attributes-read', [rng.choice(['v = o.a + o.b', 'v = (o.a, o.b)', 'v = o.a < o.b', 'o.b = o.a'])]
  if r in (44, 45):
    # a read THROUGH THE CLASS (documentation tools, hasattr / getattr probes, inspect.getmembers): the descriptor is asked with no instance
    return 'class-level-read', [rng.choice(['v = type(o).a', 'v = getattr(type(o), "a")', 'v = hasattr(type(o), "b")', 'v = [type(o).a, type(o).b]'])]
  return 'delete-or-pass-through', [rng.choice(['v = getattr(o, "a")', 'setattr(o, "a", %d)' % k, 'v = o.a; w = o.a'])]


class Abstract(ast.NodeTransformer):
  def visit_Constant(self, node):
    return ast.Constant(value=type(node.value).__name__)


def ast_shape(lines):
  try:
    tree = ast.parse('\n'.join(lines))
  except SyntaxError:
    return '\n'.join(lines)
  return ast.dump(Abstract().visit(tree))


def probe_lock(lock):
  """can another thread take the lock without blocking?"""
  res = []

  def t():
    ok = lock.acquire(blocking=False)
    if ok:
      lock.release()
    res.append(ok)
  th = threading.Thread(target=t)
  th.start()
  th.join()
  return res[0]


def probe_read(o, name):
  res = []

  def t():
    res.append(getattr(o, name))
  th = threading.Thread(target=t, daemon=True)
  th.start()
  th.join(1.5)
  return bool(res)


CONC_LABEL = {'+=': 'self-augassign', '-=': 'self-augassign', '*=': 'self-augassign', '=': 'plain-assign', 'read': 'plain-read', 'b+=': 'self-augassign'}


def conc_worker(o, plan, out, held):
  """runs the statements of wl_c27 one by one; after each finished statement the calling thread must not own a lock"""
  from vt import detsched as ds, wl_c27
  for k, (op, arg) in enumerate(plan):
    if op == 'read':
      wl_c27.rd(o, out)
    else:
      wl_c27.OPS[op](o, arg)
    me = ds.S.me()
    for name in ('a', 'b'):
      lock = type(o).__dict__[name]._lock
      held.append((k, op, name, getattr(lock, 'owner', None) is me, getattr(lock, 'count', 0)))


SYS = {'quick': (8, 1, 3000, 60.0), 'thorough': (64, 1, 100000, 120.0)}     # systematic cases, deviation bound, schedule cap, seconds cap (per scenario)


def concurrent_case(ctx, n):
  import miros.thread_safe_attributes as TSA
  from vt import detsched as ds, wl_c27
  rng = ctx.rng('conc', n)
  small = getattr(ctx, 'small', False)
  plans = []
  for t in range(2 if small else rng.randint(2, 4)):
    plan = []
    for _ in range(1 if small else rng.randint(1, 3)):
      op = rng.choice(['+=', '+=', '-=', '*=', '=', 'read', 'read', 'b+='])
      plan.append((op, {'+=': rng.randint(1, 9), '-=': rng.randint(1, 9), '*=': 2, '=': rng.randint(10, 99), 'read': None, 'b+=': rng.randint(1, 9)}[op]))
    plans.append(plan)
  pol = dict(policy='random', p_switch=rng.choice([0.03, 0.1, 0.3])) if rng.random() < 0.6 else dict(policy='pct', pct_depth=rng.choice([2, 3, 4]), pct_len=600)
  s = ds.Sched(seed=rng.randrange(1 << 30), max_steps=300000, **pol)
  ds.install(s, op_mods=[TSA, wl_c27])
  wit = {'concurrent': True, 'plans': plans, 'policy': pol}
  try:
    class K(metaclass=TSA.MetaThreadSafeAttributes):
      _attributes = ['a', 'b']
    o = K()
    if not hasattr(type(o).__dict__['a']._lock, 'owner'):
      ctx.count('concurrent_lock_not_observable')     # the attribute no longer uses the (substituted) RLock: nothing to observe here
      return
    helds = [[] for _ in plans]
    verdict = None
    try:
      ths = [ds.SThread(target=conc_worker, args=(o, pl, [], helds[i])) for i, pl in enumerate(plans)]
      for t in ths:
        t.start()
      for t in ths:
        t.join()
      s.quiesce()
    except ds.Verdict as v:
      verdict = v.kind
    ctx.count('concurrent_runs')
    ctx.distinct(('conc',) + s.signature())
    if any(isinstance(loc, tuple) and loc[0] in ('inc', 'dec', 'mul', 'inc_b') for (_, _, loc) in s.trail):
      ctx.count('concurrent_switch_between_get_and_set')
    wit['trail'] = s.trail[-40:]
    for t, held in enumerate(helds):
      for (k, op, name, owned, count) in held:
        ctx.count('concurrent_statements_checked')
        if owned:
          ctx.violation('C28/lock-held-after/%s/concurrent' % CONC_LABEL[op], 'thread %d finished its statement %d (%s %r) and still owns the lock of attribute %s (re-entrant count %d) while other threads were using the attribute: no other thread can use it any more%s' % (
            t, k, op, plans[t][k][1], name, count, ' (the run ended in %s)' % verdict if verdict else ''), wit)
          return
    if verdict:
      ctx.count('other_property_disagreements')       # deadlock / error without a finished statement owning a lock: C27's business
  finally:
    z = ds.uninstall()
    if z:
      ctx.count('zombie_threads', z)


def run_case(ctx, n):
  if n % 4 == 3:
    if n < 4 * SYS[ctx.tier][0]:
      # systematic: every schedule of a 2-thread scenario within the deviation bound (vt/sysx.py)
      sysx.explore(ctx, n * 3, concurrent_case, *SYS[ctx.tier][1:])
      return
    for sub in range(3):
      concurrent_case(ctx, n * 3 + sub)
    return
  rng = ctx.rng('case', n)
  stmts = [gen_statement(rng) for _ in range(rng.randint(15, 30))]
  SEQ[0] += 1
  modname = 'c28_wl_%d_%d' % (os.getpid(), SEQ[0])
  path = os.path.join(TMP, modname + '.py')
  # every third sequential case EDITS the module and reloads it (a development session, an autoreloader): the same file then
  # holds the statements in another order, so every line number carries a different statement than in the first version
  versions = [stmts]
  if n % 3 == 1:
    second = list(stmts)
    rng.shuffle(second)
    versions.append(second)
  mod = None
  try:
    for vi, stmts in enumerate(versions):
      write_module(path, stmts, vi)
      if vi == 0:
        mod = importlib.import_module(modname)
      else:
        importlib.invalidate_caches()
        mod = importlib.reload(mod)
        ctx.count('modules_edited_and_reloaded')
      run_module(ctx, mod, stmts, vi)
  finally:
    sys.modules.pop(modname, None)
    try:
      os.unlink(path)
    except OSError:
      pass
  if n < 2:
    ctx.sample({'statements': [ln for _, ls in stmts[:10] for ln in ls]})


def write_module(path, stmts, version):
  src = ['from miros.thread_safe_attributes import MetaThreadSafeAttributes', '',
         'def f(*a, **k):', '  return 1', '',
         'class Other:', '  plain = 3', '',
         'def mk():',
         '  class K(metaclass=MetaThreadSafeAttributes):',
         "    _attributes = ['a', 'b']",
         '  return K(), Other(), 5, 7, {"k": 2, 0: 0}, [1, 2, 3, 4, 5, 6, 7, 8, 9, 10]', '']
  for i, (label, lines) in enumerate(stmts):
    src.append('def stmt_%d():' % i)
    src.append('  o, other, x, y, d, lst = mk()')
    for ln in lines:
      src.append('  ' + ln)
    src.append('  return o')
    src.append('')
  with open(path, 'w') as f:
    f.write('\n'.join(src) + '\n')
  # the edit is a later one: its time stamp differs from the first version's (file systems with coarse time stamps, and a
  # shuffled file has the same size)
  t = os.stat(path).st_mtime + 10 * version
  os.utime(path, (t, t))


def run_module(ctx, mod, stmts, version):
  if True:
    for i, (label, lines) in enumerate(stmts):
      wit = {'statement': lines, 'class': label}
      if version:
        wit['module'] = 'edited (statements re-ordered) and reloaded: version %d of the same file' % (version + 1)
        ctx.count('statements_run_after_a_reload')
      ctx.count('statements')
      ctx.distinct(ast_shape(lines))
      try:
        o = getattr(mod, 'stmt_%d' % i)()
      except Exception as ex:
        ctx.violation('C28/statement-raises/' + label, 'statement %r raised %s: %s' % (lines, type(ex).__name__, ex), wit)
        continue
      leaked = []
      for name in ('a', 'b'):
        desc = type(o).__dict__.get(name)
        lock = getattr(desc, '_lock', None)
        ctx.count('probes')
        free = probe_lock(lock) if lock is not None else probe_read(o, name)
        if not free:
          leaked.append(name)
      if leaked:
        key = GROUPS.get(label, 'C28/lock-held-after/' + label)
        ctx.violation(key, 'after the statement %r (class %s) the lock of attribute(s) %s is still held by the calling thread: no other thread can use it' % (
          '\n'.join(lines), label, ','.join(leaked)), wit)
      else:
        if label == 'plain-read':
          ctx.count('plain_reads_ok')
        if label == 'self-augassign':
          ctx.count('self_augassign_ok')
        ctx.count('released_ok:' + label)
