"""C16 -- pending-event queues stay bounded, never block, and keep lifo posts."""
import collections
import queue as _queue

import miros.activeobject as AO
from miros.event import Event
from miros.hsm import HsmWithQueues
from miros.activeobject import LockingDeque, ActiveObject

ID = 'C16'
ENGINE = 'seq'
TECHNIQUE = 'runtime monitoring: generated operation histories against an executable bounded-deque reference model'
RULE = ('random operation histories (append / appendleft / pop / popleft / clear / len / non-blocking wait, and consumer-protocol '
        'wait-then-popleft) on LockingDeque at capacity 500 and at patched small capacities (3, 8), starting empty, partly filled and '
        'full, compared after every operation with a bounded-deque model: exact contents on non-overflowing operations; on overflow '
        'only what the statement fixes (new event at its end, length = capacity, the rest an order-preserving sub-sequence of the old '
        'contents minus exactly one). A blocking put on a full token queue (which would block forever in a sequential history) is made '
        'observable by a Queue subclass raising instead of blocking. Token accounting: tokens >= pending after every completed post, and '
        'tokens == pending whenever the history followed the consumer protocol. The same through HsmWithQueues.post_* and '
        'ActiveObject.post_* (object not started; a fifth of these posts are made as one-shot TIMED posts - period 0, not deferred - by their posting thread, which is joined before the queue is read). Every fortieth case posts 505-930 events to a (not started) chart of a SUBCLASS that raises QUEUE_SIZE to 600-900: no post may block, the queue stays within the capacity of that class, every new event is at its end. distinct_nontrivial = distinct (capacity, target, op kind, fill level class) tuples '
        'seen with an overflow or a clear. Every eighth case runs clear() from another thread while a consumer (a wait/popleft thread on a bare LockingDeque, or a started object) works through a backlog (detsched): clear() must return without raising, leave no event and no token, and a later post must reach the live consumer')
CASES = {'quick': 4000, 'thorough': 300000}
BUDGET = {'quick': 150, 'thorough': 300}
REQUIRE = {'ops': 50000, 'overflow_fifo': 500, 'overflow_lifo': 500, 'clears': 500, 'clear_on_fresh': 50, 'protocol_histories': 300, 'concurrent_clear_runs': 166, 'clear_landed_mid_backlog': 50, 'aftermath_checked': 161, 'one_shot_timed_posts': 300, 'roomy_class_cases': 33}
ASSUME = ['sequential histories (one thread) plus clear() racing one consumer; concurrent posting is C04/C05',
          'an active object thread ended by a foreign clear() between its token wait and its popleft/task_done is counted, not judged: no property quantifies over that history']


class WouldBlock(BaseException):
  pass


class NoBlockQueue(_queue.Queue):
  """a Queue whose blocking calls raise when they would block forever - and whose caller is stopped when it keeps asking /
  putting without end (a posting call that spins is a posting call that never returns): more than SPIN calls of qsize / put /
  full since the harness last looked at the queue"""
  SPIN = 20000
  calls = 0

  def _count(self):
    self.calls += 1
    if self.calls > self.SPIN:
      self.calls = 0
      raise WouldBlock('the call asked the wake-up token queue more than %d times without returning (it spins)' % self.SPIN)

  def qsize(self):
    self._count()
    return _queue.Queue.qsize(self)

  def full(self):
    self._count()
    return _queue.Queue.full(self)

  def put(self, item, block=True, timeout=None):
    self._count()
    if block and timeout is None and self.maxsize > 0 and _queue.Queue.qsize(self) >= self.maxsize:
      raise WouldBlock('put on a full queue')
    return _queue.Queue.put(self, item, block, timeout)

  def get(self, block=True, timeout=None):
    if block and timeout is None and self.qsize() == 0:
      raise WouldBlock('get on an empty queue')
    return _queue.Queue.get(self, block, timeout)


def make_ld(cap):
  saved, savedq = HsmWithQueues.QUEUE_SIZE, AO.Queue
  HsmWithQueues.QUEUE_SIZE = cap
  AO.Queue = NoBlockQueue
  try:
    return LockingDeque()
  finally:
    HsmWithQueues.QUEUE_SIZE = saved
    AO.Queue = savedq


def subseq_minus_one(old, rest):
  """rest is old with exactly one element removed, order preserved"""
  if len(rest) != len(old) - 1:
    return False
  for drop in range(len(old)):
    if old[:drop] + old[drop + 1:] == rest:
      return True
  return False


class hosts_Inconclusive(Exception):
  pass


class Target:
  """uniform view on the three posting surfaces"""
  def __init__(self, kind, cap, timed=None):
    self.kind, self.cap = kind, cap
    self.timed, self.timed_posts = timed, 0        # rng deciding which posts of an active object are made as one-shot timed posts
    if kind == 'ld':
      self.ld = make_ld(cap)
    elif kind == 'hsm':
      saved = HsmWithQueues.QUEUE_SIZE
      HsmWithQueues.QUEUE_SIZE = cap
      try:
        self.chart = HsmWithQueues()
      finally:
        HsmWithQueues.QUEUE_SIZE = saved
    else:
      saved, savedq = HsmWithQueues.QUEUE_SIZE, AO.Queue
      HsmWithQueues.QUEUE_SIZE = cap
      AO.Queue = NoBlockQueue
      try:
        self.chart = ActiveObject(name='c16')
      finally:
        HsmWithQueues.QUEUE_SIZE = saved
        AO.Queue = savedq
      self.ld = self.chart.locking_deque

  def contents(self):
    if self.kind == 'hsm':
      return [e.payload for e in self.chart.queue]
    if self.kind == 'ao':
      return [e.payload for e in self.ld.deque]
    return list(self.ld.deque)

  def tokens(self):
    if self.kind == 'hsm':
      return None
    self.ld.locking_queue.calls = 0         # the harness looks at the queue: the spin count of the next call starts here
    return _queue.Queue.qsize(self.ld.locking_queue)

  def do(self, op, x):
    if self.kind == 'ld':
      ld = self.ld
      if op == 'append':
        return ld.append(x)
      if op == 'appendleft':
        return ld.appendleft(x)
      if op == 'pop':
        return ld.pop()
      if op == 'popleft':
        return ld.popleft()
      if op == 'clear':
        return ld.clear()
      if op == 'len':
        return (len(ld), ld.len())
      if op == 'wait':
        return ld.wait(block=False)
    else:
      c = self.chart
      if op in ('append', 'appendleft') and self.kind == 'ao' and self.timed is not None and self.timed.random() < 0.2:
        # the same post made as a ONE-SHOT TIMED post (period 0, not deferred): a posting thread makes it; joined here
        import threading
        tid = (c.post_fifo if op == 'append' else c.post_lifo)(Event(signal='C16_EVT', payload=x), period=0.0, times=1, deferred=False)
        th = next((t for t in threading.enumerate() if t.name == tid), None)
        if th is not None:
          th.join(20)
          if th.is_alive():
            raise hosts_Inconclusive('the posting thread of a one-shot timed post did not finish within 20 s')
        self.timed_posts += 1
        return tid
      if op == 'append':
        return c.post_fifo(Event(signal='C16_EVT', payload=x))
      if op == 'appendleft':
        return c.post_lifo(Event(signal='C16_EVT', payload=x))
      q = c.queue
      if op in ('pop', 'popleft'):
        r = getattr(q, op)()
        return r.payload
      if op == 'clear':
        return q.clear()
      if op == 'len':
        return (len(q), len(q))
      if op == 'wait':
        return q.wait(block=False)
    raise AssertionError(op)


def concurrent_clear_case(ctx, n):
  """clear() called from another thread while a consumer is working through a backlog (detsched).  What C16 fixes for
  clear() is decided here and nothing else: clear() returns (no exception, no deadlock), it leaves neither events nor tokens
  behind, and a later post still gets its wake-up token (a live consumer receives it).  Two consumers:
    'ld' - a harness consumer on a bare LockingDeque (wait, then popleft unless the deque was emptied meanwhile); it can not be
           upset by the clear, so every run reaches the aftermath checks;
    'ao' - a started ActiveObject.  Its own thread is NOT written for a foreign clear() between its token wait and its
           popleft/task_done (IndexError / ValueError end run_event); no property quantifies over that history (C16 is about
           the queue, C04/C05 about posts), so the end of that thread is counted (consumer_ended_by_racing_clear) and is not
           a verdict; the aftermath is checked on the runs where the thread is still alive."""
  from vt import detsched as ds, aosim
  rng = ctx.rng('cclear', n)
  pol = aosim.policy_for(rng, est_len=600, fair_suffix=False)
  s = ds.Sched(seed=rng.randrange(1 << 30), max_steps=2000000, **pol)
  aosim.install(s)
  variant = 'ld' if rng.random() < 0.5 else 'ao'
  try:
    nback = rng.randint(2, 12)
    kinds = [rng.choice(['fifo', 'fifo', 'lifo']) for _ in range(nback)]
    rec = {}
    received = []
    try:
      if variant == 'ao':
        hist = aosim.History()
        ao = aosim.make_ao(hist, name='c16')
        st = aosim.make_state(hist, {}, rng.random() < 0.5)
        ao.start_at(st)
        ld = ao.locking_deque
        post = lambda kind, u: (ao.post_fifo if kind == 'fifo' else ao.post_lifo)(Event(signal='EVT', payload=u))
      else:
        ld = LockingDeque()

        def consumer():
          while True:
            ld.wait()
            try:
              x = ld.popleft()
            except IndexError:
              continue            # emptied by clear() after the token was taken
            if x == 'STOP':
              return
            received.append(x)
        th = ds.SThread(target=consumer)
        th.start()
        post = lambda kind, u: (ld.append if kind == 'fifo' else ld.appendleft)(u)
      for u in range(nback):
        post(kinds[u], u)
      rec['call'] = s.steps
      try:
        ld.clear()
      except (ds.Abort, ds.Verdict):
        raise
      except BaseException as ex:
        rec['exc'] = '%s: %s' % (type(ex).__name__, ex)
      rec['ret'] = s.steps
      rec['left'] = (len(ld), ds._q.Queue.qsize(ld.locking_queue))
      s.quiesce()
      dead = [(t.name, t.role, repr(t.exc)) for t in s.threads if t.exc is not None]
      post('fifo', 999)
      s.quiesce()
    except ds.Verdict as v:
      ctx.violation('C16/concurrent-clear-' + v.kind, 'clear() racing the consumer ended in %s: %r' % (v.kind, (v.info or {}).get('blocked')), {'variant': variant, 'backlog': nback, 'policy': pol})
      return
    ctx.count('concurrent_clear_runs')
    ctx.count('concurrent_clear_runs_' + variant)
    if variant == 'ao':
      received = [d['uid'] for d in hist.dispatch if d['sig'] == 'EVT']
    ctx.distinct(('cclear', variant, nback, len(received), s.signature()[:20]))
    wit = {'variant': variant, 'backlog': nback, 'kinds': kinds, 'policy': pol, 'clear': rec, 'received': received, 'ended_threads': dead}
    if 0 < len([u for u in received if u != 999]) < nback:
      ctx.count('clear_landed_mid_backlog')
    if 'exc' in rec:
      ctx.violation('C16/clear-raises/racing-consumer', 'clear() called while a consumer was working through a backlog of %d events raised %s' % (nback, rec['exc']), wit)
      return
    if rec['left'] != (0, 0):
      ctx.violation('C16/clear-leaves-state/racing-consumer', 'when clear() returned (nobody posting) the queue held %d events and %d tokens' % rec['left'], wit)
      return
    if len(set(received)) != len(received) or not set(received) <= set(range(nback)) | {999}:
      ctx.violation('C16/consumer-received-other-than-posted', 'the consumer received %r, posted 0..%d and 999' % (received, nback - 1), wit)
      return
    if dead:
      if variant == 'ld':
        ctx.violation('C16/harness-consumer-raised', 'the wait/popleft consumer raised: %r' % dead, wit)
      else:
        ctx.count('consumer_ended_by_racing_clear')     # outside every property, see the docstring
      return
    ctx.count('aftermath_checked')
    if 999 not in received:
      ctx.violation('C16/queue-unusable-after-concurrent-clear', 'an event posted after clear() never reached the live consumer (queue %d, tokens %d)' % (len(ld), ds._q.Queue.qsize(ld.locking_queue)), wit)
  finally:
    ds.uninstall()


def roomy_class_case(ctx, n):
  """an ActiveObject / HsmWithQueues SUBCLASS that raises QUEUE_SIZE, posted to (not started, so nothing is consumed) beyond
  the stock 500 events: no post may block, the queue stays within the class's capacity, every new event is at its end"""
  rng = ctx.rng('roomy', n)
  cap = rng.choice([600, 750, 900])
  base = rng.choice([ActiveObject, ActiveObject, HsmWithQueues])
  savedq = AO.Queue
  AO.Queue = NoBlockQueue
  try:
    class Roomy(base):
      QUEUE_SIZE = cap
    chart = Roomy(name='c16_roomy') if base is ActiveObject else Roomy()
  finally:
    AO.Queue = savedq
  total = rng.randint(505, cap + 30)
  ctx.count('roomy_class_cases')
  ctx.distinct(('roomy', cap, base.__name__, total > cap))
  wit = {'QUEUE_SIZE_of_the_chart_class': cap, 'host': base.__name__, 'posts': total}
  q = lambda: getattr(chart.queue, 'deque', chart.queue)
  for u in range(total):
    kind = 'fifo' if rng.random() < 0.7 else 'lifo'
    try:
      (chart.post_fifo if kind == 'fifo' else chart.post_lifo)(Event(signal='C16_EVT', payload=u))
    except WouldBlock as ex:
      ctx.violation('C16/post-blocks', 'post number %d (%s) to a chart of a class with QUEUE_SIZE = %d would block forever: %s (%d events pending)' % (u + 1, kind, cap, ex, len(q())), wit)
      return
    ctx.count('ops')
    d = q()
    if len(d) > cap:
      ctx.violation('C16/exceeds-capacity', 'queue holds %d events, the class\'s QUEUE_SIZE is %d' % (len(d), cap), wit)
      return
    end = d[-1] if kind == 'fifo' else d[0]
    if end.payload != u:
      ctx.violation('C16/new-event-lost-on-overflow/%s' % kind, 'post number %d (%s): the new event is not at the %s of the queue (%d pending, class QUEUE_SIZE %d)' % (u + 1, kind, 'back' if kind == 'fifo' else 'front', len(d), cap), wit)
      return


def run_case(ctx, n):
  if n % 8 == 7:
    return concurrent_clear_case(ctx, n)
  if n % 40 == 13:
    return roomy_class_case(ctx, n)
  rng = ctx.rng('case', n)
  cap = rng.choice([3, 3, 8, 8, 500])
  kind = rng.choice(['ld', 'ld', 'hsm', 'ao'])
  protocol = kind != 'hsm' and rng.random() < 0.4     # consumer protocol: wait, then popleft
  tgt = Target(kind, cap, timed=ctx.rng('timed', n) if kind == 'ao' else None)
  model = collections.deque()
  tokens_exact = True     # tokens == pending is required as long as the protocol is followed
  hist = []
  uid = [0]
  wit = {'capacity': cap, 'target': kind, 'protocol': protocol, 'history': hist}

  def fresh():
    uid[0] += 1
    return uid[0]
  # pre-fill
  fill = rng.choice(['empty', 'part', 'full', 'full'])
  if rng.random() < 0.15:
    ctx.count('clear_on_fresh')
    hist.append(('clear', None))
    try:
      tgt.do('clear', None)
      ctx.count('clears')
    except BaseException as ex:
      ctx.violation('C16/clear-raises/fresh-queue', 'clear() on a queue that never held an event raised %s: %s' % (type(ex).__name__, ex), wit)
      return
  nfill = {'empty': 0, 'part': rng.randint(1, max(1, cap - 1)), 'full': cap}[fill]
  nops = nfill + rng.randint(5, 40 if cap < 500 else 25)
  for k in range(nops):
    if k < nfill:
      op = 'append' if rng.random() < 0.7 else 'appendleft'
    elif protocol:
      op = rng.choice(['append', 'append', 'appendleft', 'appendleft', 'consume', 'consume', 'len', 'clear' if rng.random() < 0.15 else 'len'])
    else:
      choices = ['append', 'append', 'appendleft', 'appendleft', 'pop', 'popleft', 'len', 'clear' if rng.random() < 0.2 else 'len']
      if kind != 'hsm':
        choices.append('wait')
      op = rng.choice(choices)
    ctx.count('ops')
    before = list(model)
    tok_before = tgt.tokens()
    try:
      if op in ('append', 'appendleft'):
        x = fresh()
        hist.append((op, x))
        tgt.do(op, x)
        got = tgt.contents()
        if len(before) < cap:
          (model.append if op == 'append' else model.appendleft)(x)
          if got != list(model):
            ctx.violation('C16/contents-differ-from-bounded-deque/%s' % op,
                          '%s(%r) on a non-full queue (%d of %d, tokens %s): contents %r, bounded deque %r' % (op, x, len(before), cap, tok_before, got[:12], list(model)[:12]), wit)
            return
        else:
          ctx.count('overflow_fifo' if op == 'append' else 'overflow_lifo')
          ctx.distinct((cap, kind, op, 'overflow', tok_before == cap))
          if len(got) != cap:
            ctx.violation('C16/length-after-overflow', '%s on a full queue left %d events (capacity %d)' % (op, len(got), cap), wit)
            return
          end = got[-1] if op == 'append' else got[0]
          if end != x:
            ctx.violation('C16/new-event-lost-on-overflow/%s' % ('fifo' if op == 'append' else 'lifo'),
                          '%s(%r) on a full queue: the new event is not at the %s (contents %r ...)' % (op, x, 'back' if op == 'append' else 'front', got[:6]), wit)
            return
          rest = got[:-1] if op == 'append' else got[1:]
          if not subseq_minus_one(before, rest):
            ctx.violation('C16/overflow-reorders-or-drops-more', '%s on a full queue: remaining events %r are not the old contents minus one (%r)' % (op, rest[:10], before[:10]), wit)
            return
          model = collections.deque(got)
        tk = tgt.tokens()
        if tk is not None:
          if tk < len(got):
            ctx.violation('C16/fewer-tokens-than-pending', 'after %s: %d tokens for %d pending events' % (op, tk, len(got)), wit)
            return
          if tokens_exact and tk != len(got):
            ctx.violation('C16/tokens-differ-in-protocol-history', 'after %s: %d tokens for %d pending events although every pop was preceded by a wait' % (op, tk, len(got)), wit)
            return
      elif op == 'consume':
        hist.append(('wait+popleft', None))
        if model:
          tgt.do('wait', None)
          r = tgt.do('popleft', None)
          exp = model.popleft()
          if r != exp:
            ctx.violation('C16/popleft-differs', 'popleft returned %r, bounded deque %r' % (r, exp), wit)
            return
          tk = tgt.tokens()
          if tokens_exact and tk != len(model):
            ctx.violation('C16/tokens-differ-in-protocol-history', 'after wait+popleft: %d tokens for %d pending events' % (tk, len(model)), wit)
            return
      elif op in ('pop', 'popleft'):
        hist.append((op, None))
        if model:
          r = tgt.do(op, None)
          exp = model.pop() if op == 'pop' else model.popleft()
          tokens_exact = False
          if r != exp:
            ctx.violation('C16/%s-differs' % op, '%s returned %r, bounded deque %r' % (op, r, exp), wit)
            return
        else:
          try:
            tgt.do(op, None)
            ctx.violation('C16/pop-on-empty', '%s on an empty queue returned instead of raising IndexError' % op, wit)
            return
          except IndexError:
            pass
      elif op == 'wait':
        hist.append(('wait(block=False)', None))
        tokens_exact = False
        try:
          tgt.do('wait', None)
        except _queue.Empty:
          pass
      elif op == 'len':
        hist.append(('len', None))
        r = tgt.do('len', None)
        if r != (len(model), len(model)):
          ctx.violation('C16/len-differs', 'len %r, bounded deque %d' % (r, len(model)), wit)
          return
      elif op == 'clear':
        hist.append(('clear', None))
        ctx.count('clears')
        ctx.distinct((cap, kind, 'clear', len(model) == 0, tok_before == 0))
        try:
          tgt.do('clear', None)
        except BaseException as ex:
          ctx.violation('C16/clear-raises/%s' % ('no-tokens' if not tok_before else 'with-tokens'), 'clear() raised %s: %s (pending %d, tokens %s)' % (type(ex).__name__, ex, len(before), tok_before), wit)
          return
        model.clear()
        tokens_exact = True if kind != 'hsm' else tokens_exact
        if tgt.contents() or (tgt.tokens() not in (None, 0)):
          ctx.violation('C16/clear-leaves-state', 'after clear(): contents %r tokens %r' % (tgt.contents()[:5], tgt.tokens()), wit)
          return
    except hosts_Inconclusive:
      ctx.count('inconclusive_runs')
      return
    except WouldBlock as ex:
      ctx.violation('C16/post-blocks', '%s would block forever: %s (pending %d of %d, tokens %s)' % (op, ex, len(before), cap, tok_before), wit)
      return
    if len(tgt.contents()) > cap:
      ctx.violation('C16/exceeds-capacity', 'queue holds %d events, capacity %d' % (len(tgt.contents()), cap), wit)
      return
  if protocol:
    ctx.count('protocol_histories')
  ctx.count('one_shot_timed_posts', tgt.timed_posts)
  if n < 3:
    ctx.sample({'capacity': cap, 'target': kind, 'protocol': protocol, 'history': hist[:25]})
