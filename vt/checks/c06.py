"""C06 -- the fabric delivers each publication once to every subscriber and to no one else."""
import collections

import miros.activeobject as AO
from miros.event import Event
from vt import detsched as ds

ID = 'C06'
ENGINE = 'detsched'
TECHNIQUE = 'runtime monitoring: random subscribe/publish histories against an identity-keyed registry model; delivery threads interleaved by a deterministic cooperative scheduler; exactly-once / no-phantom checker at quiescence'
RULE = ('random histories of subscribe / publish calls over 2-5 queues (plain deques that are EQUAL BY CONTENT, deques with maxlen, '
        'LockingDeques), 1-4 signals, fifo and lifo subscriptions, repeated subscriptions in every position, subscription by Event and by '
        'signal number, issued by the harness thread (a fifth of the subscriptions by 2-3 threads at once, for the same queue, signal and kind) (a fifth of the publications by 2-3 threads at once) (in 30% of the histories the fabric is stopped and started again at random points, without quiescence, so that publications are in flight) while the two real delivery threads are interleaved by detsched (random / PCT); at '
        'quiescence every unique-id publication must be in a queue exactly once per subscription kind that was registered before the '
        'publish call, at most once more per kind registered later (it may still have been in transit), and never in a queue that did '
        'not subscribe to its signal. distinct_nontrivial = distinct (queues, signals, history shape) tuples with a repeated subscription')
CASES = {'quick': 2500, 'thorough': 150000}
BUDGET = {'quick': 150, 'thorough': 300}
REQUIRE = {'histories': 791, 'repeated_subscriptions': 1000, 'publications_checked': 8000, 'histories_with_equal_queues': 500, 'concurrent_subscriptions_of_one_queue': 1000, 'fabric_restarts_with_publications_possibly_in_flight': 226, 'publications_made_by_several_threads_at_once': 500, 'os_backend_runs': 40}
ASSUME = ['every publication is made while the fabric runs (it may be stopped and started again in between); capacities are large enough for every publication']
ANNOUNCE_CASES = True


def os_case(ctx, n):
  """second opinion on real threads with the real primitives (vt/osback.py): 2-4 publisher threads and a subscriber thread race
  the two real delivery threads; decided after the fabric's queues report every task done: exactly-once per subscription made
  before the publish call, nothing for queues that never subscribed; a fabric that does not drain within the wall-clock limit is
  inconclusive here, never a verdict"""
  from vt import osback
  rng = ctx.rng('os', n)
  nq = rng.randint(2, 4)
  sigs = ['F_OS%d' % i for i in range(rng.randint(1, 3))]
  qtypes = [rng.choice(['deque', 'locking']) for _ in range(nq)]
  queues = [collections.deque() if t == 'deque' else AO.LockingDeque() for t in qtypes]
  early = [(rng.randrange(nq), rng.choice(sigs), rng.choice(['fifo', 'lifo'])) for _ in range(rng.randint(2, 6))]
  late = [(rng.randrange(nq), rng.choice(sigs), rng.choice(['fifo', 'lifo'])) for _ in range(rng.randint(0, 4))]
  plans, uid = [], 0
  for _ in range(rng.randint(2, 4)):
    pl = []
    for _ in range(rng.randint(2, 8)):
      uid += 1
      pl.append((uid, rng.choice(sigs + ['F_OS_NOBODY']), rng.choice([None, 1, 5, 1000])))
    plans.append(pl)
  stamp = osback.Stamp()
  pub_rec, sub_rec = {}, []
  fabric = AO.ActiveFabricSource()
  wit = {'backend': 'os threads', 'queues': qtypes, 'early': early, 'late': late, 'plans': plans}

  def publisher(pl):
    for u, sig, prio in pl:
      t0 = stamp()
      if prio is None:
        fabric.publish(Event(signal=sig, payload=u))
      else:
        fabric.publish(Event(signal=sig, payload=u), priority=prio)
      pub_rec[u] = (sig, t0, stamp())

  def subscriber():
    for qi, sig, kind in late:
      t0 = stamp()
      fabric.subscribe(queues[qi], Event(signal=sig), queue_type=kind)
      sub_rec.append((qi, sig, kind, t0, stamp()))
  try:
    with osback.Perturb(rng.randrange(1 << 30), p_yield=rng.choice([0.05, 0.2, 0.5])) as P:
      for qi, sig, kind in early:
        fabric.subscribe(queues[qi], Event(signal=sig), queue_type=kind)
        sub_rec.append((qi, sig, kind, 0, 0))
      fabric.start()
      finished, excs = osback.run_threads([(publisher, (pl,)) for pl in plans] + [(subscriber, ())], limit=30.0)
      drained = finished and osback.wait_for(lambda: fabric.fifo_fabric_queue.unfinished_tasks == 0 and fabric.lifo_fabric_queue.unfinished_tasks == 0, limit=15.0)
      alive = fabric.is_alive()
    ctx.count('os_backend_yields_injected', P.nyields)
    if excs:
      ctx.count('os_backend_runs')
      ctx.violation('C06/exception-in-thread', 'real threads: a publisher or subscriber raised: %r' % excs, wit)
      return
    if not alive and finished:
      ctx.count('os_backend_runs')
      ctx.violation('C06/exception-in-thread', 'real threads: a delivery thread of the running fabric ended', wit)
      return
    if not drained:
      ctx.count('os_backend_inconclusive')
      return
    ctx.count('os_backend_runs')
    for qi, q in enumerate(queues):
      items = list(q.deque) if isinstance(q, AO.LockingDeque) else list(q)
      cnt = collections.Counter(e.payload for e in items)
      for u, (sig, p0, p1) in pub_rec.items():
        ctx.count('os_backend_publications_checked')
        kinds_before = set(k for (sq, ss, k, s0, s1) in sub_rec if sq == qi and ss == sig and s1 < p0)
        kinds_any = set(k for (sq, ss, k, s0, s1) in sub_rec if sq == qi and ss == sig)
        c = cnt.get(u, 0)
        if c < len(kinds_before):
          ctx.violation('C06/missing-delivery', 'real threads: publication %d (%s) is %d times in queue %d which subscribed to it %d time(s) (fifo/lifo) before it was published' % (u, sig, c, qi, len(kinds_before)), wit)
          return
        if c > len(kinds_any):
          ctx.violation('C06/delivery-to-non-subscriber' if not kinds_any else 'C06/duplicate-delivery', 'real threads: publication %d (%s) is %d times in queue %d; its subscriptions allow at most %d' % (u, sig, c, qi, len(kinds_any)), wit)
          return
  finally:
    try:
      fabric.stop()
    except Exception:
      pass


def run_case(ctx, n):
  if n % 20 == 19:
    return os_case(ctx, n)
  rng = ctx.rng('case', n)
  nq = rng.randint(2, 5)
  sigs = ['F_SIG%d' % i for i in range(rng.randint(1, 4))]
  qtypes = [rng.choice(['deque', 'deque', 'maxlen', 'locking']) for _ in range(nq)]
  ops = []
  uid = 0
  restarts = rng.random() < 0.3      # histories in which the fabric is stopped and started again while publications may be in flight
  for _ in range(rng.randint(6, 30)):
    if rng.random() < 0.55:
      ops.append(('sub', rng.randrange(nq), rng.choice(sigs), rng.choice(['fifo', 'fifo', 'lifo', None]), rng.random() < 0.3))
      if rng.random() < 0.2:
        # the same subscription made by 2-3 threads AT ONCE (e.g. an object's own thread and the main thread)
        ops[-1] = ops[-1] + (rng.randint(2, 3),)
    elif restarts and rng.random() < 0.12:
      ops.append(('restart',))
    else:
      uid += 1
      ops.append(('pub', uid, rng.choice(sigs + ['F_NOBODY']), rng.choice([None, 1, 5, 1000])))
      if rng.random() < 0.2:
        # 2-3 publications made by as many threads AT ONCE (active objects publish from their own threads)
        for _ in range(rng.randint(1, 2)):
          uid += 1
          ops[-1] = ops[-1] + ((uid, rng.choice(sigs + ['F_NOBODY']), rng.choice([None, 1, 5, 1000])),)
  pol = dict(policy='random', p_switch=rng.choice([0.02, 0.1, 0.3, 0.6])) if rng.random() < 0.7 else dict(policy='pct', pct_depth=rng.choice([2, 3]), pct_len=600)
  s = ds.Sched(seed=rng.randrange(1 << 30), max_steps=2000000, **pol)
  ds.install(s, line_mods=[AO], log_deque=False)
  try:
    fabric = AO.ActiveFabric()
    queues = []
    for t in qtypes:
      if t == 'deque':
        queues.append(collections.deque())
      elif t == 'maxlen':
        queues.append(collections.deque(maxlen=200))
      else:
        queues.append(AO.LockingDeque())
    # model: kind -> sig -> {queue index: op index of first subscription}
    model = {'fifo': collections.defaultdict(dict), 'lifo': collections.defaultdict(dict)}
    pubs = {}
    repeated = 0
    try:
      fabric.start()
      for j, op in enumerate(ops):
        if op[0] == 'sub':
          _, qi, sig, kind, by_number = op[:5]
          ev = Event(signal=sig)
          arg = ev.signal if by_number else ev
          if len(op) > 5:
            ctx.count('concurrent_subscriptions_of_one_queue')
            kw = {} if kind is None else {'queue_type': kind}
            ths = [ds.SThread(target=fabric.subscribe, args=(queues[qi], arg), kwargs=kw) for _ in range(op[5])]
            for t in ths:
              t.start()
            for t in ths:
              t.join()
          elif kind is None:
            fabric.subscribe(queues[qi], arg)
          else:
            fabric.subscribe(queues[qi], arg, queue_type=kind)
          k = kind or 'fifo'
          if qi in model[k][sig]:
            repeated += 1
          model[k][sig].setdefault(qi, j)
        elif op[0] == 'restart':
          # stop() and start() back to back, no quiescence before: publications still waiting in the fabric (they were made
          # while it ran) must be delivered once it runs again - exactly once, like all others
          fabric.stop()
          fabric.start()
          ctx.count('fabric_restarts_with_publications_possibly_in_flight')
        else:
          def publish(u, sig, prio):
            if prio is None:
              fabric.publish(Event(signal=sig, payload=u))
            else:
              fabric.publish(Event(signal=sig, payload=u), priority=prio)
          _, u, sig, prio = op[:4]
          pubs[u] = (sig, j)
          if len(op) > 4:
            ctx.count('publications_made_by_several_threads_at_once', len(op) - 3)
            ths = [ds.SThread(target=publish, args=(u, sig, prio))]
            for (u2, sig2, prio2) in op[4:]:
              pubs[u2] = (sig2, j)
              ths.append(ds.SThread(target=publish, args=(u2, sig2, prio2)))
            for t in ths:
              t.start()
            for t in ths:
              t.join()
          else:
            publish(u, sig, prio)
      s.quiesce()
    except ds.Verdict as v:
      ctx.violation('C06/' + v.kind, 'history ended in %s: %r' % (v.kind, v.info), {'ops': ops, 'queues': qtypes})
      return
    ctx.count('histories')
    ctx.count('repeated_subscriptions', repeated)
    if qtypes.count('deque') >= 2:
      ctx.count('histories_with_equal_queues')
    if repeated:
      ctx.distinct((nq, len(sigs), tuple(o[0] for o in ops)))
    wit = {'ops': ops, 'queues': qtypes, 'policy': pol}
    exc = [(t.name, t.role, repr(t.exc)) for t in s.threads if t.exc is not None]
    if exc:
      ctx.violation('C06/exception-in-thread', 'a fabric thread died: %r' % exc, wit)
      return
    for qi, q in enumerate(queues):
      items = list(q.deque) if isinstance(q, AO.LockingDeque) else list(q)
      cnt = collections.Counter(e.payload for e in items)
      for u, (sig, j) in pubs.items():
        ctx.count('publications_checked')
        lo = sum(1 for k in ('fifo', 'lifo') if qi in model[k][sig] and model[k][sig][qi] < j)
        hi = lo + sum(1 for k in ('fifo', 'lifo') if qi in model[k][sig] and model[k][sig][qi] > j)
        c = cnt.get(u, 0)
        if c < lo:
          ctx.violation('C06/missing-delivery', 'publication %d (%s) is %d times in queue %d (%s) which subscribed to it %d time(s) (fifo/lifo) before it was published' % (u, sig, c, qi, qtypes[qi], lo), wit)
          return
        if c > hi:
          key = 'C06/delivery-to-non-subscriber' if hi == 0 else 'C06/duplicate-delivery'
          ctx.violation(key, 'publication %d (%s) is %d times in queue %d (%s); its subscriptions allow at most %d' % (u, sig, c, qi, qtypes[qi], hi), wit)
          return
    if n < 3:
      ctx.sample(wit)
  finally:
    z = ds.uninstall()
    if z:
      ctx.count('zombie_threads', z)
