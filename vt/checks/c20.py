"""C20 -- the trace has one record per transition and none for other steps."""
from vt import qcheck

ID = 'C20'
ENGINE = 'chartgen+model'
RULE = ('C19 runs on spied, instrumented HsmWithQueues and ActiveObject charts: after start_at exactly one record (top, None, rest state); '
        'after every step the number of new full.trace records must be 1 iff the reference model says the event caused a transition '
        '(including self-transitions and guard-fired transitions after declines), 0 for hooks, declined-and-ignored and unknown events; '
        'the record must be (previous rest state, signal, new rest state); at the end the record list must equal the expected list cut '
        'to the 500-record ring (long runs cross it); clear_trace() calls by the client in between restart the expected list; a share of the active objects subscribe and / or publish BEFORE start_at, so that their first steps handle the SUBSCRIBE / PUBLISH meta event (no transition: no record). distinct_nontrivial = distinct (host, transitions, non-transitions) per run')
CASES = {'quick': 2500, 'thorough': 150000}
BUDGET = {'quick': 150, 'thorough': 300}
REQUIRE = {'trace_transitions': 5000, 'trace_non_transitions': 5000, 'trace_ring_crossed': 1, 'clear_trace_calls': 100, 'subscribe_meta_steps': 80, 'publish_meta_steps': 50}
ASSUME = ['steps stay below the 250-tuple per-step ring']


def run_case(ctx, n):
  rng = ctx.rng('kind', n)
  long_run = rng.random() < 0.08
  r = qcheck.run_qcase(ctx, n, ('C20',), with_queries=n % 2 == 0, long_run=long_run, n_ops=1500 if n % 500 == 7 else None, clears=True)
  if r is None:
    return
  res, spec, cfg = r
  if res.trace_records is not None:
    ctx.distinct((cfg['host'], len(res.trace_records), len(res.steps)))
