"""C20 -- the trace has one record per transition and none for other steps."""
from vt import qcheck

ID = 'C20'
ENGINE = 'chartgen+model'
RULE = ('C19 runs on spied, instrumented HsmWithQueues and ActiveObject charts: after start_at exactly one record (top, None, rest state); '
        'after every step the number of new full.trace records must be 1 iff the reference model says the event caused a transition '
        '(including self-transitions and guard-fired transitions after declines), 0 for hooks, declined-and-ignored and unknown events; '
        'the record must be (previous rest state, signal, new rest state); at the end the record list must equal the expected list cut '
        'to the 500-record ring (long runs cross it); clear_trace() calls by the client in between restart the expected list; a share of the active objects subscribe and / or publish BEFORE start_at, so that their first steps handle the SUBSCRIBE / PUBLISH meta event (no transition: no record). Every tenth case steps an instrumented active object through transitions, hooks and ignored events while another thread registers new signal names (detsched, opcode-level yield points in the signal classification of miros/event.py): exactly one record per transition. distinct_nontrivial = distinct (host, transitions, non-transitions) per run')
CASES = {'quick': 2500, 'thorough': 150000}
BUDGET = {'quick': 150, 'thorough': 300}
REQUIRE = {'trace_transitions': 5000, 'trace_non_transitions': 5000, 'trace_ring_crossed': 1, 'clear_trace_calls': 100, 'subscribe_meta_steps': 60, 'publish_meta_steps': 40, 'runs_stepping_while_signals_are_registered': 83}
ANNOUNCE_CASES = True
ASSUME = ['steps stay below the 250-tuple per-step ring']


def concurrent_registration_case(ctx, n):
  """an instrumented active object steps through transitions, hooks and ignored events while ANOTHER thread registers new
  signal names (every program that builds Event('NEW_NAME') at run time does): the trace must still have exactly one record
  per transition.  detsched, opcode-level yield points in the signal classification of miros/event.py"""
  import miros.activeobject as AO
  import miros.event as EV
  import miros.hsm as H
  from miros.event import Event, return_status as RS
  from vt import detsched as ds, aosim
  from vt.checks import c25
  rng = ctx.rng('reg', n)
  pol = aosim.policy_for(rng, est_len=2500, fair_suffix=False)
  s = ds.Sched(seed=rng.randrange(1 << 30), max_steps=3000000, **pol)
  ds.install(s, line_mods=[AO, H], line_funcs={H: aosim.HSM_FUNCS + ['_spy_on']}, op_funcs={EV: ['is_inner_signal', 'is_number_an_internal_signal']})
  saved = c25.fresh_registry()
  saved_globals = (H.signals, AO.signals)
  H.signals = AO.signals = EV.signals          # hsm.py and activeobject.py bind the registry at import: they must see the fresh one
  try:
    sig = EV.signals

    def mk(name, other):
      def st(chart, e):
        if e.signal in (sig.ENTRY_SIGNAL, sig.INIT_SIGNAL, sig.EXIT_SIGNAL):
          return RS.HANDLED
        if e.signal_name == 'GO':
          return chart.trans(states[other])
        if e.signal_name == 'HOOK':
          return RS.HANDLED
        chart.temp.fun = chart.top
        return RS.SUPER
      st.__name__ = name
      return H.spy_on(st)
    states = {}
    states['a'], states['b'] = mk('c20_a', 'b'), mk('c20_b', 'a')
    script = [rng.choice(['GO', 'GO', 'HOOK', 'NOBODY']) for _ in range(rng.randint(3, 8))]
    for nm in ('GO', 'HOOK', 'NOBODY'):
      sig.append(nm)
    wit = {'concurrent_registration': True, 'script': script, 'policy': pol}
    try:
      ao = AO.ActiveObject(name='c20_reg')
      ao.start_at(states['a'])
      s.quiesce()

      def registrar():
        for i in range(rng.randint(4, 10)):
          EV.signals.append('C20_NEW_%d_%d' % (n, i))
      th = ds.SThread(target=registrar)
      th.start()
      for sn in script:
        ao.post_fifo(Event(signal=sn))
      th.join()
      s.quiesce()
    except ds.Verdict as v:
      ctx.violation('C20/' + v.kind, 'stepping while another thread registers signals ended in %s: %r' % (v.kind, (v.info or {}).get('blocked')), wit)
      return
    ctx.count('runs_stepping_while_signals_are_registered')
    ctx.distinct(('reg', tuple(script), s.signature()[:40]))
    exc = [(t.name, t.role, repr(t.exc)) for t in s.threads if t.exc is not None]
    if exc:
      ctx.violation('C20/exception-in-thread', 'a thread died: %r' % exc, wit)
      return
    exp, cur = [('top', None, 'c20_a')], 'a'
    for sn in script:
      if sn == 'GO':
        nxt = 'b' if cur == 'a' else 'a'
        exp.append(('c20_' + cur, 'GO', 'c20_' + nxt))
        cur = nxt
    got = [(t.start_state, t.signal, t.end_state) for t in ao.full.trace]
    ctx.count('trace_transitions', len(exp) - 1)
    if got != exp:
      ctx.violation('C20/full-trace-differs', 'while another thread registered new signal names the trace became %r; the %d transitions of the script %r give %r' % (got, len(exp) - 1, script, exp), wit)
  finally:
    EV.signals = saved
    H.signals, AO.signals = saved_globals
    z = ds.uninstall()
    if z:
      ctx.count('zombie_threads', z)


def run_case(ctx, n):
  if n % 10 == 9:
    return concurrent_registration_case(ctx, n)
  rng = ctx.rng('kind', n)
  long_run = rng.random() < 0.08
  r = qcheck.run_qcase(ctx, n, ('C20',), with_queries=n % 2 == 0, long_run=long_run, n_ops=1500 if n % 500 == 7 else None, clears=True, restarts=True)
  if r is None:
    return
  res, spec, cfg = r
  if res.trace_records is not None:
    ctx.distinct((cfg['host'], len(res.trace_records), len(res.steps)))
