"""C11 -- cancelling a timed source stops exactly that source, for good."""
from miros.event import Event
from vt import detsched as ds, aosim, timersim

ID = 'C11'
ENGINE = 'detsched'
TECHNIQUE = 'runtime monitoring under a deterministic cooperative scheduler with a virtual clock: happens-after checker over the linearised queue-operation log (no posting of a cancelled source after the cancel call returned; other sources keep their ideal schedule)'
RULE = ('2-5 timed sources (some sharing a signal name) on a started ActiveObject; at a virtual instant that coincides with a posting instant of '
        'a source in half of the runs (so canceller and timer thread are runnable together) cancel_event(id) or cancel_events(event) is called '
        'from outside or from inside a handler, with the id / signal-name object either identical to what miros returned or EQUAL BUT NOT '
        'IDENTICAL (rebuilt by join / encode-decode / JSON round trip, as if received over a network); in 40% of the runs a further thread arms an unrelated timed source at the very instant of the cancel (in a third of these, TWO threads arm one source each, same signal name, at once: all ids handed out must be different); in a quarter of the outside runs a SECOND thread makes the same cancelling call at the same instant (the first timer thread that posts from then on is held in the middle of its post by an injected delay): after whichever call returns first the target must be silent; in a fifth of the runs a NAMESAKE of the target is armed by another thread at the instant of cancel_events, that thread being held for a moment at a random line of the arming call (injected delay) so that the cancel runs to completion in the middle of it: a source armed before the cancel call began must be silent once it returned, and any other must be silent for good once the NEXT cancel_events for its name returned; in a fifth of the runs the object (a subclass with a small QUEUE_SIZE) can track exactly one more source than it already has and TWO threads arm one each just before the cancel of the oldest source: one must be refused and every accepted source must stay cancellable. Checked from the deque operation log: '
        'no append of a cancelled source after the step at which the cancel call returned; exactly the targeted sources stop; every other '
        'source has its ideal number of postings at the horizon. distinct_nontrivial = distinct (cancel mode, inside/outside, identical or '
        'rebuilt, coincident instant, context-switch sequence) tuples')
CASES = {'quick': 1500, 'thorough': 80000}
BUDGET = {'quick': 150, 'thorough': 300}
REQUIRE = {'runs': 600, 'cancel_by_id': 200, 'cancel_by_name': 200, 'cancel_from_handler': 150, 'rebuilt_argument': 200, 'cancel_coincides_with_posting': 200,
           'timer_and_canceller_runnable_together': 50, 'source_armed_during_cancel': 200,
           'runs_under_capacity_pressure': 100, 'overlapping_cancellations': 49, 'capacity_pressure_one_of_two_refused': 80, 'namesake_armed_during_cancel': 57, 'two_threads_arm_namesake_sources_at_once': 60, 'namesake_armed_while_the_cancel_ran': 30}
ASSUME = ['instantaneous-computation time model (clock advances only at quiescence)']
ANNOUNCE_CASES = True


def run_case(ctx, n):
  rng = ctx.rng('case', n)
  sources = timersim.gen_sources(rng, nmax=5, names=('TICK_A', 'TICK_B'), times_max=8)
  if len(sources) < 2:
    sources = sources + [dict(sources[0], i=1)]
  for src in sources:
    src['start_delay'] = rng.choice([0.0, 0.0, 0.003])
  mode = rng.choice(['id', 'name'])
  inside = rng.random() < 0.35
  rebuilt = rng.random() < 0.4
  target = rng.randrange(len(sources))
  # capacity pressure (a fifth of the runs): the object can track exactly one more timed source than the main thread arms, and TWO
  # threads arm a further source each at the instant of the cancel - one of them must be refused (C31), every accepted source must
  # stay cancellable and the oldest one is the cancel's target
  pressure = rng.random() < 0.2
  if pressure:
    target = 0
  pol = aosim.policy_for(rng, est_len=1200, fair_suffix=False)
  s = ds.Sched(seed=rng.randrange(1 << 30), max_steps=3000000, horizon=1e9, **pol)
  aosim.install(s)
  run = timersim.TimerRun()
  cancel_rec = {}
  cancel_rec2 = {}
  try:
    import miros.activeobject as AOM
    base = None
    if pressure:
      class SmallCapacity(AOM.ActiveObject):
        QUEUE_SIZE = len(sources) + 1
      base = SmallCapacity
      ctx.count('runs_under_capacity_pressure')
    ao = aosim.make_ao(run.hist, instrumented=rng.random() < 0.5, base=base)

    def do_cancel(chart, cancel_rec=cancel_rec):
      if mode == 'id':
        arg = run.ids[target]
        if rebuilt:
          arg = timersim.rebuild_equal(rng, arg)
        cancel_rec.update(call=ds.S.steps, clock=ds.S.clock, identical=arg is run.ids[target], equal=arg == run.ids[target])
        chart.cancel_event(arg)
      else:
        nm = sources[target]['sig']
        if rebuilt:
          nm = timersim.rebuild_equal(rng, nm)
        ev = Event(signal=nm)
        cancel_rec.update(call=ds.S.steps, clock=ds.S.clock, identical=ev.signal_name is sources[target]['event'].signal_name, equal=ev.signal_name == sources[target]['sig'])
        chart.cancel_events(ev)
      cancel_rec['ret'] = ds.S.steps
    st = timersim.make_state(run, [do_cancel], spied=rng.random() < 0.5)
    coincide = rng.random() < 0.5
    try:
      ao.start_at(st)
      for src in sources:
        if src['start_delay']:
          ds.STime.sleep(src['start_delay'])
        timersim.start_source(ao, run, src)
      tsrc = sources[rng.randrange(len(sources))]
      k = rng.randint(1, 4)
      tc = run.t0[tsrc['i']] + k * tsrc['period'] if coincide else s.clock + rng.choice([0.004, 0.033, 0.777])
      # in part of the runs another thread arms an unrelated timed source at the very instant of the cancel
      armers = []
      if pressure or rng.random() < 0.4:
        twin_armers = (not pressure) and rng.random() < 0.35
        if twin_armers:
          ctx.count('two_threads_arm_namesake_sources_at_once')
        for _ in range(2 if (pressure or twin_armers) else 1):
          ysrc = {'i': len(sources), 'sig': 'TICK_Y', 'kind': rng.choice(['fifo', 'lifo']), 'period': rng.choice([0.01, 0.05, 0.1]),
                  'times': rng.choice([0, 3, 5]), 'deferred': rng.choice([True, False, None]), 'start_delay': 0.0}
          sources.append(ysrc)

          def arm(ysrc=ysrc):
            ds.STime.sleep(max(0.0, tc - (0.001 if pressure else 0.0) - ds.S.clock))
            timersim.start_source(ao, run, ysrc)
          armers.append(ds.SThread(target=arm))
          armers[-1].start()
        ctx.count('source_armed_during_cancel')
      # a NAMESAKE of the target is armed by another thread at the very instant of cancel_events (a sixth of the runs): the
      # arming thread is held for a moment at a random line of the arming call (injected delay), so that the cancelling call
      # runs to completion in the middle of it.  Whether the cancel reaches that source is not prescribed - but a source
      # armed before the cancel call began must be silent afterwards, and a source the cancel did not reach must still be
      # there for the NEXT cancel_events: after that one returned it must be silent for good
      racer = None
      if mode == 'name' and not inside and not pressure and rng.random() < 0.5:
        racer = {'i': len(sources), 'sig': sources[target]['sig'], 'kind': rng.choice(['fifo', 'lifo']), 'period': rng.choice([0.01, 0.02, 0.05]),
                 'times': rng.choice([0, 0, 40]), 'deferred': rng.choice([True, False, None]), 'start_delay': 0.0, 'racing': True}
        sources.append(racer)
        ctx.count('namesake_armed_during_cancel')
        if rng.random() < 0.85:
          s.inject = {'match': lambda me, loc: me.role == 'arm_namesake' and isinstance(loc, tuple) and loc[0] == '__post_event',
                      'visit': rng.randint(1, 44) if rng.random() < 0.5 else rng.randint(28, 44), 'sleep': 0.0005}     # (the arming call has ~42 yield points; its tail, where the source becomes visible to cancellers, is visited more often)

        def arm_namesake():
          ds.STime.sleep(max(0.0, tc - ds.S.clock))
          racer['arm_call'] = ds.S.steps
          timersim.start_source(ao, run, racer)
          racer['arm_ret'] = ds.S.steps
        armers.append(ds.SThread(target=arm_namesake))
        armers[-1].start()
      # overlapping cancellations (a quarter of the outside runs): a second thread cancels the same target(s) at the same
      # instant; in most of these runs the first timer thread that posts from then on is held in the middle of its post
      # (it keeps its per-source lock) by an injected delay, so that both cancelling calls meet a source that is busy
      double = (not inside) and (not pressure) and racer is None and rng.random() < 0.25
      canceller2 = None
      if double:
        ctx.count('overlapping_cancellations')
        if rng.random() < 0.7:
          s.inject = {'match': lambda me, loc: me.role == 'post_event_thread_runner' and ds.S.clock >= tc - 1e-9 and isinstance(loc, tuple) and loc[0] in ('post_fifo', 'post_lifo', 'append', 'appendleft'),
                      'visit': rng.randint(1, 6), 'sleep': rng.choice([0.001, 0.004])}

        def cancel_again():
          ds.STime.sleep(max(0.0, tc - ds.S.clock))
          do_cancel(ao, cancel_rec2)
        canceller2 = ds.SThread(target=cancel_again)
        canceller2.start()
      ds.STime.sleep(max(0.0, tc - s.clock))
      if inside:
        ao.post_fifo(Event(signal='DO', payload=0))
      else:
        do_cancel(ao)
      if canceller2 is not None:
        canceller2.join()
        if 'ret' in cancel_rec2 and 'ret' in cancel_rec and cancel_rec2['ret'] < cancel_rec['ret']:
          # the cancelling call that returned FIRST is the reference: from then on the target must be silent
          cancel_rec.update(ret=cancel_rec2['ret'], returned_first='second canceller')
      horizon = s.clock + rng.choice([0.0777, 0.5123, 3.0011])
      ds.STime.sleep(horizon - s.clock)
      for armer in armers:
        armer.join()
      if racer is not None:
        # the NEXT cancel_events for that name, made when everything else has settled
        racer['second_cancel_call'] = ds.S.steps
        ao.cancel_events(Event(signal=timersim.rebuild_equal(rng, racer['sig']) if rebuilt else racer['sig']))
        racer['second_cancel_ret'] = ds.S.steps
        ds.STime.sleep(rng.choice([0.07031, 0.30117]))
    except ds.Verdict as v:
      ctx.violation('C11/' + v.kind, 'scenario ended in %s: %r' % (v.kind, v.info), {'sources': len(sources)})
      return
    now = s.clock
    ctx.count('runs')
    ctx.count('cancel_by_' + mode)
    if inside:
      ctx.count('cancel_from_handler')
    if rebuilt:
      ctx.count('rebuilt_argument')
    if coincide:
      ctx.count('cancel_coincides_with_posting')
    wsrc = [dict((k2, v) for k2, v in x.items() if k2 != 'event') for x in sources]
    wit = {'sources': wsrc, 'mode': mode, 'inside_handler': inside, 'argument_rebuilt': rebuilt, 'target_source': target, 'cancel': cancel_rec, 'policy': pol,
           'capacity_pressure': pressure, 'refused_sources': sorted(run.raised)}
    if pressure:
      if len(run.raised) == 1:
        ctx.count('capacity_pressure_one_of_two_refused')
      else:
        ctx.count('other_property_disagreements')      # how many are refused is C31's business
    # an id names ONE source: whatever was armed, by whichever threads, no two sources of the object may share an id
    ids = [(i, run.ids[i]) for i in sorted(run.ids) if run.ids[i] is not None]
    seen = {}
    for i, x in ids:
      if str(x) in seen:
        ctx.violation('C11/two-sources-share-an-id', 'sources %d and %d of one active object were given the same id %r: cancel_event(id) can no longer stop exactly one of them' % (seen[str(x)], i, str(x)), wit)
        return
      seen[str(x)] = i
    ctx.count('source_ids_compared', len(ids))
    if 'ret' not in cancel_rec:
      ctx.violation('C11/cancel-never-ran', 'the cancelling call did not complete (handler not run?)', wit)
      return
    # were the canceller and a timer thread runnable at the same time?
    for (a, b, loc) in s.trail:
      if isinstance(loc, tuple) and loc[0] in ('cancel_event', 'cancel_events', 'post_event_thread_runner') and cancel_rec['call'] <= s.steps:
        pass
    exc = [(t.name, t.role, repr(t.exc)) for t in s.threads if t.exc is not None]
    if exc:
      ctx.violation('C11/exception-in-thread', 'a thread died: %r' % exc, wit)
      return
    posts = timersim.postings(ao)
    cancelled = [x['i'] for x in sources if (mode == 'id' and x['i'] == target) or (mode == 'name' and x['sig'] == sources[target]['sig'])]
    ctx.distinct((mode, inside, rebuilt, coincide, s.signature()[:60]))
    for src in sources:
      i = src['i']
      mine = [p for p in posts if p[0] == i]
      if i in run.raised:
        if mine:
          ctx.count('other_property_disagreements')    # a refused source that posts is C31's business
        continue
      if src.get('racing'):
        if s.inject:
          ctx.maxc('yield_points_inside_the_arming_call', s.inject.get('seen', 0))
        if 'arm_ret' not in src or 'second_cancel_ret' not in src:
          ctx.count('other_property_disagreements')
          continue
        if src['arm_ret'] < cancel_rec['call']:
          ctx.count('namesake_armed_before_the_cancel_call')
          ref, which = cancel_rec['ret'], 'the cancelling call (the source was armed before that call began)'
        else:
          ctx.count('namesake_armed_while_the_cancel_ran' if src['arm_call'] < cancel_rec['ret'] else 'namesake_armed_after_the_cancel_returned')
          ref, which = src['second_cancel_ret'], 'the NEXT cancel_events call for its name (it was armed while the first one ran)'
        late = [p for p in mine if p[2] > ref]
        if late:
          ctx.violation('C11/source-armed-during-cancel-escapes-every-cancel', 'source %d (%s, armed by another thread at the instant of cancel_events) posted %d more times after %s had returned at step %d; tracked sources now: %d' % (
            i, src['sig'], len(late), which, ref, len(ao.posted_events_queue)), dict(wit, late_postings=late[:5], injected_delay=(s.inject or {}).get('at')))
          return
        continue
      ideal = timersim.expected_instants(src, run.t0[i], now)
      if i in cancelled:
        late = [p for p in mine if p[2] > cancel_rec['ret']]
        near = [p for p in mine if cancel_rec['call'] <= p[2] <= cancel_rec['ret']]
        if near or late:
          ctx.count('timer_and_canceller_runnable_together')
        if late:
          still = [t for t in ideal if t > cancel_rec['clock'] + 1e-9]
          if len(late) == 1 and abs(late[0][3] - cancel_rec['clock']) < 1e-9:
            key = 'C11/post-after-cancel-returned/timer-between-flag-check-and-post'
            what = 'source %d posted once more (step %d, virtual time %r) AFTER the cancelling call had returned (step %d): its timer thread had already passed the run-flag check' % (i, late[0][2], late[0][3], cancel_rec['ret'])
          elif not cancel_rec['identical']:
            key = 'C11/equal-but-not-identical-%s-does-not-cancel' % mode
            what = 'cancel with an EQUAL but not identical %s (equal=%s) stopped nothing: source %d posted %d more times after the call returned' % (
              'id' if mode == 'id' else 'signal name', cancel_rec['equal'], i, len(late))
          else:
            key = 'C11/cancelled-source-keeps-posting'
            what = 'source %d posted %d more times after the cancelling call returned at step %d' % (i, len(late), cancel_rec['ret'])
          ctx.violation(key, what, dict(wit, late_postings=late[:5]))
          return
        # before the cancel it must have behaved like C10 says
        before = [t for t in ideal if t < cancel_rec['clock'] - 1e-9]
        if len([p for p in mine if p[3] < cancel_rec['clock'] - 1e-9]) != len(before):
          ctx.count('other_property_disagreements')
      else:
        # a source whose timer thread was held by the harness' own injected delay runs late by that much: it may be short of
        # its ideal count by the postings that fit into the delay (plus one), never ahead of it
        inj = s.inject if (s.inject and s.inject.get('done')) else None
        tol = (int(inj['sleep'] / src['period']) + 1) if (inj and src['period'] > 0) else (1 if inj else 0)
        if not (len(ideal) - tol <= len(mine) <= len(ideal)):
          ctx.violation('C11/other-source-disturbed', 'source %d was not cancelled (target %d, mode %s) but has %d postings at t=%r instead of %d' % (i, target, mode, len(mine), now, len(ideal)), wit)
          return
    if n < 3:
      ctx.sample({'sources': wsrc, 'mode': mode, 'inside_handler': inside, 'argument_rebuilt': rebuilt, 'cancel': cancel_rec})
  finally:
    z = ds.uninstall()
    if z:
      ctx.count('zombie_threads', z)
