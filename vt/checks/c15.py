"""C15 -- defer holds events back until recall, oldest first."""
from vt import qcheck

ID = 'C15'
ENGINE = 'chartgen+model'
RULE = ('C14 histories on charts whose handlers also defer the current event and recall (from reactions and from entry/exit/init); '
        'each recall return value (ground-truth log) must be the oldest entry of a deferred-deque model (None when it is empty, then '
        'nothing may be posted), a recalled event joins the BACK of the pending model, the deferred length must match after every '
        'step and the dispatch order of all events must equal the model (so a deferred event is never dispatched before its recall). '
        'distinct_nontrivial = distinct (host, defers, recalls, recalls-on-empty, steps) tuples with >= 1 defer or recall')
CASES = {'quick': 4000, 'thorough': 250000}
BUDGET = {'quick': 40, 'thorough': 900}
REQUIRE = {'defers': 1000, 'recalls': 1000, 'recalls_on_empty': 100}
ASSUME = ['queue capacity (500) is not reached']


def run_case(ctx, n):
  r = qcheck.run_qcase(ctx, n, ('C15', 'C14'), allow_defer=True, spied=(True, False), instrumented=(True, False))
  if r is None:
    return
  res, spec, cfg = r
  nd = sum(1 for s in res.steps for x in s['log'] if x[0] == 'act' and x[1] == 'defer')
  nr = sum(1 for s in res.steps for x in s['log'] if x[0] == 'act' and x[1] == 'recall')
  ne = sum(1 for s in res.steps for x in s['log'] if x[0] == 'act' and x[1] == 'recall' and x[2] is None)
  if nd or nr:
    ctx.distinct((cfg['host'], nd, nr, ne, len(res.steps)))
