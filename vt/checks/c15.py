"""C15 -- defer holds events back until recall, oldest first."""
from vt import qcheck

ID = 'C15'
ENGINE = 'chartgen+model'
RULE = ('C14 histories on charts whose handlers also defer the current event and recall (from reactions and from entry/exit/init); '
        'each recall return value (ground-truth log) must be the oldest entry of a deferred-deque model (None when it is empty, then '
        'nothing may be posted), a recalled event joins the BACK of the pending model, the deferred length must match after every '
        'step and the dispatch order of all events must equal the model (so a deferred event is never dispatched before its recall). '
        'Every sixth case runs 2-3 threads that recall at the same time (fewer recalls than deferred events) under detsched: each of the '
        'oldest events must be returned and queued exactly once. Every fortieth case defers 501-1180 events on a chart class that raises QUEUE_SIZE to 600-1200 (the knob for queue capacities): none may be lost, recalls return the oldest first. Another fortieth recalls while the event queue is FULL or one or two short of full (stock capacity and chart classes with QUEUE_SIZE 3-17; plain chart and active object): the oldest deferred event is returned and is the last item of the queue, the rest stays deferred in order, a recall with nothing deferred leaves the queue as it was. distinct_nontrivial = distinct (host, defers, recalls, recalls-on-empty, steps) tuples with >= 1 defer or recall')
CASES = {'quick': 4000, 'thorough': 250000}
BUDGET = {'quick': 150, 'thorough': 300}
REQUIRE = {'defers': 1000, 'recalls': 1000, 'recalls_on_empty': 100, 'overlapping_recall_runs': 211, 'large_capacity_cases': 33, 'full_queue_recall_cases': 33, 'recalls_at_a_full_queue': 30}
ASSUME = ['in the generated chart histories the queue capacity (500) is not reached; recalls at a full queue are driven directly (full_queue_recall_case)']


def overlapping_recalls(ctx, n):
  """recalls issued by several threads at once (an active object's handlers and other threads may both recall):
  under every interleaving each deferred event is recalled at most once, oldest first, and lands in the queue once"""
  import miros.hsm as H
  from miros.event import Event
  from vt import detsched as ds, aosim
  rng = ctx.rng('overlap', n)
  k = rng.randint(3, 8)
  nthreads = rng.randint(2, 3)
  per = [rng.randint(1, 2) for _ in range(nthreads)]
  k = max(k, sum(per) + rng.randint(1, 2))      # fewer recalls than deferred events, every thread recalls at least once
  pol = dict(policy='random', p_switch=rng.choice([0.1, 0.3, 0.6])) if rng.random() < 0.7 else dict(policy='pct', pct_depth=3, pct_len=150)
  s = ds.Sched(seed=rng.randrange(1 << 30), max_steps=500000, **pol)
  ds.install(s, line_mods=[H], line_funcs={H: aosim.HSM_FUNCS}, log_deque=False)
  try:
    chart = H.HsmWithQueues(instrumented=rng.random() < 0.5)
    evs = [Event(signal='C15_D%d' % (i % 3), payload=i) for i in range(k)]
    for e in evs:
      chart.defer(e)
    got = [[] for _ in range(nthreads)]

    def worker(i):
      for _ in range(per[i]):
        got[i].append(chart.recall())
    try:
      ths = [ds.SThread(target=worker, args=(i,)) for i in range(nthreads)]
      for t in ths:
        t.start()
      for t in ths:
        t.join()
    except ds.Verdict as v:
      ctx.violation('C15/overlapping-recalls-' + v.kind, 'overlapping recalls ended in %s' % v.kind, {'deferred': k, 'recalls_per_thread': per})
      return
    ctx.count('overlapping_recall_runs')
    ctx.distinct(('overlap', k, tuple(per), s.signature()[:20]))
    wit = {'deferred': k, 'recalls_per_thread': per, 'policy': pol, 'returned': [[None if e is None else e.payload for e in g] for g in got]}
    exc = [(t.name, repr(t.exc)) for t in s.threads if t.exc is not None]
    if exc:
      ctx.violation('C15/overlapping-recalls-exception', 'a recalling thread raised: %r' % exc, wit)
      return
    ret = [e.payload for g in got for e in g if e is not None]
    m = sum(per)
    if sorted(ret) != list(range(m)):
      ctx.violation('C15/overlapping-recalls-not-oldest-first-once', '%d overlapping recalls of %d deferred events returned %r; each of the %d oldest events must be returned exactly once' % (m, k, sorted(ret), m), wit)
      return
    if sorted(e.payload for e in chart.queue) != list(range(m)) or [e.payload for e in chart.defer_queue] != list(range(m, k)):
      ctx.violation('C15/overlapping-recalls-queues', 'after the recalls the queue holds %r and the deferred queue %r' % ([e.payload for e in chart.queue], [e.payload for e in chart.defer_queue]), wit)
  finally:
    ds.uninstall()


def large_capacity_case(ctx, n):
  """a chart class that raises QUEUE_SIZE (the documented knob for queue capacities) defers more than the stock 500 events:
  every one of them is held until recalled, oldest first"""
  import miros.hsm as H
  import miros.activeobject as AO
  from miros.event import Event
  rng = ctx.rng('large', n)
  cap = rng.choice([600, 800, 1200])
  base = rng.choice([H.HsmWithQueues, AO.ActiveObject])

  class Roomy(base):
    QUEUE_SIZE = cap
  chart = Roomy() if base is H.HsmWithQueues else Roomy(name='c15_roomy')
  k = rng.randint(501, cap - 20)
  for i in range(k):
    chart.defer(Event(signal='C15_L%d' % (i % 4), payload=i))
  ctx.count('large_capacity_cases')
  ctx.distinct(('large', cap, base.__name__, k > 550))
  wit = {'QUEUE_SIZE_of_the_chart_class': cap, 'host': base.__name__, 'deferred': k}
  if len(chart.defer_queue) != k:
    ctx.violation('C15/deferred-event-lost', '%d events were deferred on a chart class with QUEUE_SIZE = %d, the defer queue holds %d' % (k, cap, len(chart.defer_queue)), wit)
    return
  for i in range(rng.randint(3, 12)):
    e = chart.recall()
    if e is None or e.payload != i:
      ctx.violation('C15/recall-order', 'recall number %d returned %r, the oldest deferred event is number %d (chart class with QUEUE_SIZE = %d, %d events deferred)' % (i + 1, None if e is None else e.payload, i, cap, k), wit)
      return
    q = getattr(chart.queue, 'deque', chart.queue)
    if q[-1] is not e:
      ctx.violation('C15/recall-not-at-back', 'the recalled event %d is not at the back of the queue' % i, wit)
      return


def full_queue_recall_case(ctx, n):
  """a recall while the chart's event queue is full (or one or two short of full): the statement knows no exception for it - the
  oldest deferred event is returned and is the last item of the queue afterwards, the others stay deferred in their order"""
  import miros.hsm as H
  import miros.activeobject as AO
  from miros.event import Event
  rng = ctx.rng('fullq', n)
  base = rng.choice([H.HsmWithQueues, AO.ActiveObject])
  small = rng.choice([None, None, 3, 4, 8, 17])

  if small is None:
    cls = base
  else:
    class Tight(base):
      QUEUE_SIZE = small
    cls = Tight
  chart = cls() if base is H.HsmWithQueues else cls(name='c15_fullq')
  q = getattr(chart.queue, 'deque', chart.queue)
  cap = q.maxlen
  if not cap:
    return
  short = rng.choice([0, 0, 0, 1, 2])
  k = rng.randint(1, min(5, chart.defer_queue.maxlen or 5))
  for i in range(max(0, cap - short)):
    (chart.post_fifo if rng.random() < 0.8 else chart.post_lifo)(Event(signal='C15_F%d' % (i % 3), payload=('fill', i)))
  for i in range(k):
    chart.defer(Event(signal='C15_D%d' % (i % 4), payload=('deferred', i)))
  ctx.count('full_queue_recall_cases')
  ctx.distinct(('fullq', base.__name__, small, short, k))
  wit = {'host': base.__name__, 'class_level_QUEUE_SIZE': small, 'queue_capacity': cap, 'queue_length_before_the_recalls': len(q), 'deferred': k}
  if [e.payload for e in chart.defer_queue] != [('deferred', i) for i in range(k)]:
    ctx.violation('C15/deferred-event-lost', 'after %d defers the defer queue holds %r' % (k, [e.payload for e in chart.defer_queue]), wit)
    return
  for i in range(k + rng.randint(0, 2)):
    before = list(q)
    e = chart.recall()
    ctx.count('recalls_at_a_full_queue' if len(before) == cap else 'recalls_near_a_full_queue')
    if i >= k:
      if e is not None or list(q) != before:
        ctx.violation('C15/recall-on-empty-posts', 'recall number %d with nothing deferred returned %r and changed the queue: %s' % (i + 1, e, list(q) != before), wit)
        return
      continue
    if e is None or e.payload != ('deferred', i):
      ctx.violation('C15/recall-order', 'recall number %d with %d events in a queue of capacity %d returned %r, the oldest deferred event is number %d; still deferred: %r'
                    % (i + 1, len(before), cap, None if e is None else e.payload, i, [x.payload for x in chart.defer_queue]), wit)
      return
    if not len(q) or q[-1] is not e:
      ctx.violation('C15/recall-not-at-back', 'the recalled event %d is not at the back of the queue (%d events in a queue of capacity %d before the recall)' % (i, len(before), cap), wit)
      return
    if [x.payload for x in chart.defer_queue] != [('deferred', j) for j in range(i + 1, k)]:
      ctx.violation('C15/deferral-order', 'after recall number %d the defer queue holds %r' % (i + 1, [x.payload for x in chart.defer_queue]), wit)
      return


def run_case(ctx, n):
  if n % 40 == 19:
    return full_queue_recall_case(ctx, n)
  if n % 40 == 39:
    return large_capacity_case(ctx, n)
  if n % 6 == 5:
    return overlapping_recalls(ctx, n)
  r = qcheck.run_qcase(ctx, n, ('C15', 'C14'), allow_defer=True, spied=(True, False), instrumented=(True, False))
  if r is None:
    return
  res, spec, cfg = r
  nd = sum(1 for s in res.steps for x in s['log'] if x[0] == 'act' and x[1] == 'defer')
  nr = sum(1 for s in res.steps for x in s['log'] if x[0] == 'act' and x[1] == 'recall')
  ne = sum(1 for s in res.steps for x in s['log'] if x[0] == 'act' and x[1] == 'recall' and x[2] is None)
  if nd or nr:
    ctx.distinct((cfg['host'], nd, nr, ne, len(res.steps)))
