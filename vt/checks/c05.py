"""C05 -- posting to an active object always returns; the system reaches quiescence."""
import threading

import miros.activeobject as AO
from miros.event import Event
from vt import detsched as ds, aosim, sysx

ID = 'C05'
ENGINE = 'detsched'
TECHNIQUE = 'runtime monitoring under a deterministic cooperative scheduler: bounded-progress monitor (fair round-robin suffix, step budget) and exact deadlock detection at quiescence; a few small scenarios per run are enumerated systematically (every schedule within a delay bound, vt/sysx.py)'
RULE = ('a started ActiveObject (spied or not, instrumented or not, live spy/trace output on in a share of the spied runs) and 1-4 poster threads x 1-6 unique-id events (fifo/lifo mixed, handlers that post further events; in 15% of the runs the pending-event queue has capacity 2-4 instead of 500 (in part of them the class of the object declares a larger QUEUE_SIZE of its own) and the posters race at and beyond a FULL queue, in most of these runs with handlers that post further events - fifo and lifo - from the object\'s own thread while the queue is full), all real '
        'threads run one at a time by detsched with yield points at every line of miros/activeobject.py and of the queue functions of '
        'miros/hsm.py and around every Queue/Thread primitive; seeded random or PCT schedule prefix, then FAIR round-robin; every post must '
        'return and the system must reach quiescence (posters finished, consumer waiting, queue empty) within B = 40000 + 3000 x events '
        'yield points (correct runs need < 3000); a quiescent state with a blocked poster is a deadlock. Liveness is decided in this '
        'bounded-progress form only. Two DIRECTED schedules (waypoint policy of vt/detsched.py) are replayed every 50 cases for windows too narrow for sampling: the top-up test of a poster split by the consumer, and an object\'s own post (from a handler, queue at capacity-1) split by an outside poster that fills the last wake-up-token slot. distinct_nontrivial = distinct context-switch sequences (projected on thread roles and locations) of '
        'runs with >= 2 posters or >= 1 handler post. ' + sysx.RULE_TEXT % (1, 1))
CASES = {'quick': 800, 'thorough': 60000}
BUDGET = {'quick': 150, 'thorough': 600}
REQUIRE = {'runs': 300, 'runs_with_racing_posters': 100, 'runs_with_live_output_on': 40, 'runs_with_small_queue_capacity': 38, 'runs_with_handler_posts_at_a_full_queue': 25, 'runs_with_a_class_level_queue_size_above_the_library_constant': 15, 'directed_full_queue_schedules_run': 5, 'directed_schedules_followed_to_the_end': 10, 'systematic_schedules': 52, 'poster_between_token_put_and_append': 20, 'consumer_between_get_and_popleft': 20}
ASSUME = ['"eventually" is restated as bounded progress under a fair suffix; unbounded liveness is out of reach of a finite run',
          'switches happen at line starts of the focus files and around (never inside) calls of real primitives']
ANNOUNCE_CASES = True


def gen_plan(rng):
  nposters = rng.choice([1, 2, 2, 3, 3, 4])
  uid = [0]

  def nxt():
    uid[0] += 1
    return uid[0]
  plans = []
  for p in range(nposters):
    plans.append([(rng.choice(['fifo', 'fifo', 'lifo']), nxt()) for _ in range(rng.randint(1, 6))])
  fan = {}
  for pl in plans:
    for kind, u in pl:
      if rng.random() < 0.2:
        fan[u] = [(rng.choice(['fifo', 'lifo']), nxt()) for _ in range(rng.randint(1, 2))]
  return plans, fan, uid[0]


def window_hooks(s, ao_holder):
  """counts the interesting windows actually entered (coverage, not verdicts)"""
  def on_switch_note(sched, me, loc):
    pass
  return on_switch_note


def run_scenario(ctx, rng, plans, fan, nev, spied, instrumented, check=None, extras=None):
  B = 40000 + 3000 * nev
  s = ds.Sched(seed=rng.randrange(1 << 30), max_steps=B, **aosim.policy_for(rng, est_len=400 + 150 * nev))
  hist = aosim.History()
  aosim.install(s)
  result = {'verdict': None}
  try:
    cap = (extras or {}).get('capacity')
    if cap:
      # a small pending-event queue (capacity 2-4 instead of 500): the posters race at and beyond a FULL queue
      import miros.hsm as _H
      saved_cap = _H.HsmWithQueues.QUEUE_SIZE
      _H.HsmWithQueues.QUEUE_SIZE = cap
      try:
        base = None
        if (extras or {}).get('subclass_capacity'):
          # the object's class declares a QUEUE_SIZE of its own, larger than the library-wide constant in force
          class Roomy(AO.ActiveObject):
            QUEUE_SIZE = extras['subclass_capacity']
          base = Roomy
        ao = aosim.make_ao(hist, instrumented=instrumented, base=base)
      finally:
        _H.HsmWithQueues.QUEUE_SIZE = saved_cap
    else:
      ao = aosim.make_ao(hist, instrumented=instrumented)
    st = aosim.make_state(hist, fan, spied)
    live = (extras or {}).get('live')
    if live:
      # live output switched on: lines go through the writer thread into harness lists
      ao.live_spy, ao.live_trace = live
      result['live_spy_lines'], result['live_trace_lines'] = [], []
      ao.register_live_spy_callback(result['live_spy_lines'].append)
      ao.register_live_trace_callback(result['live_trace_lines'].append)
    try:
      if extras and extras.get('pubs'):
        ao.subscribe(Event(signal='C04_PUB'), queue_type=extras['sub_kind'])
        if extras.get('sub_again') == 'before':
          ao.subscribe(Event(signal='C04_PUB'), queue_type=extras['sub_kind'])     # the same subscription made twice
      ao.start_at(st)
      if extras and extras.get('pubs'):
        s.quiesce()      # the subscription made before start_at is performed by the object's own thread
        if extras.get('sub_again') == 'after':
          ao.subscribe(Event(signal='C04_PUB'), queue_type=extras['sub_kind'])     # ... or once more on the running object
          s.quiesce()
      ld = ao.locking_deque
      # abstract global state for lasso (livelock cycle) detection: everything that records progress
      fab = ao.fabric
      s.state_fn = lambda: (ds._q.Queue.qsize(ld.locking_queue), tuple(id(x) for x in ld.deque), len(hist.handled),
                            sum(1 for p in hist.posts if p['ret'] is not None), len(hist.posts), len(hist.dispatch),
                            # progress of the other threads: live-output writer, fabric queues, every logged queue operation
                            ds._q.Queue.qsize(ao.writer._queue), len(result.get('live_spy_lines', ())), len(result.get('live_trace_lines', ())),
                            ds._q.Queue.qsize(fab.fifo_fabric_queue), ds._q.Queue.qsize(fab.lifo_fabric_queue), len(ds.OPLOG), len(ds.PQLOG))
      ths = [ds.SThread(target=aosim.poster, args=(ao, hist, 'p%d' % i, pl)) for i, pl in enumerate(plans)]
      if extras:
        # events from timed sources and from the publish/subscribe fabric join the posters' events
        for i, (kind, period, times, deferred) in enumerate(extras.get('timed', ())):
          (ao.post_fifo if kind == 'fifo' else ao.post_lifo)(Event(signal='EVT', payload=('t', i)), period=period, times=times, deferred=deferred)

        def publisher():
          for k in extras.get('pubs', ()):
            AO.ActiveFabric().publish(Event(signal='C04_PUB', payload=('p', k)))
        ths.append(ds.SThread(target=publisher))
      for t in ths:
        t.start()
      for t in ths:
        t.join()
      s.quiesce()
      result['blocked_at_quiescence'] = s.blocked_report()
    except ds.Verdict as v:
      ld = ao.locking_deque
      result.update(verdict=v.kind, info=v.info, tokens=ds._q.Queue.qsize(ld.locking_queue), pending=len(ld.deque),
                    unreturned_posts=[p for p in hist.posts if p['ret'] is None][:5])
      return result, s, hist, ao
    exc = [(t.name, t.role, repr(t.exc)) for t in s.threads if t.exc is not None]
    result['thread_exceptions'] = exc
    result['ao_ident'] = ao.thread.ident if ao.thread is not None else None
    if check is not None:
      result['findings'] = check(ao, hist, result['ao_ident'])
    # windows entered (coverage): a switch away from a poster right after its token put, or from the consumer after its token get
    for (a, b, loc) in s.trail:
      role = s._role(a)
      if isinstance(loc, tuple) and loc[0] in ('append', 'appendleft') and role == 'poster':
        ctx.count('poster_between_token_put_and_append')
      if isinstance(loc, tuple) and loc[0] in ('run_event', 'next_rtc', '_append_queue_reflection_to_spy', '_print_trace_if_live', '_print_spy_if_live') and role == 'run_event':
        ctx.count('consumer_between_get_and_popleft')
    result['steps'], result['switches'] = s.steps, s.switches
    for k, v in s.lasso_stats.items():
      ctx.count('lasso_' + k, v)
    return result, s, hist, ao
  finally:
    z = ds.uninstall()
    if z:
      ctx.count('zombie_threads', z)


def directed_case(ctx, n):
  """DIRECTED schedules for windows that are too narrow for sampling (regression witnesses): two posters and the consumer are
  steered through a fixed sequence of waypoints (vt/detsched.py policy 'directed'), then everything runs to quiescence.
  Witness 1 ('top-up test split by the consumer'): both posters have put their wake-up token and the consumer has spent
  both on an empty queue; poster 1 finishes; poster 2 inserts its event and is in the middle of its top-up test when the
  consumer takes the last token and the first event: poster 2 must still leave a token for its own event"""
  import linecache
  rng = ctx.rng('directed', n)
  kinds = [rng.choice(['fifo', 'lifo']), rng.choice(['fifo', 'lifo'])]
  s = ds.Sched(seed=1, policy='directed', max_steps=400000)
  hist = aosim.History()
  aosim.install(s)
  try:
    ao = aosim.make_ao(hist, instrumented=rng.random() < 0.5)
    st = aosim.make_state(hist, {}, rng.random() < 0.5)
    src = lambda loc: linecache.getline(AO.__file__, loc[1]) if isinstance(loc, tuple) and isinstance(loc[1], int) else ''
    poster = lambda k: (lambda t: t.role == 'poster' and t.pyname is not None and [x for x in s.threads if x.role == 'poster'].index(t) == k)
    consumer = lambda t: t.role == 'run_event'
    # "the token is in, the event is not": the poster is about to execute the first statement after its token put
    token_in = lambda loc: isinstance(loc, tuple) and loc[0] in ('append', 'appendleft') and ('self.deque.appendleft(item)' in src(loc) or 'if len(self.deque) == self.deque.maxlen' in src(loc))
    reading_tokens = lambda loc: loc == 'Queue.qsize:returned'
    s.waypoints = [(poster(0), token_in), (consumer, 'blocked'), (poster(1), token_in), (consumer, 'blocked'), (poster(0), 'finished'),
                   (poster(1), reading_tokens), (consumer, 'blocked'), (poster(1), 'finished')]
    wit = {'directed': 'top-up test split by the consumer', 'kinds': kinds}
    try:
      ao.start_at(st)
      s.quiesce()
      ths = [ds.SThread(target=aosim.poster, args=(ao, hist, 'p%d' % i, [(kinds[i], i + 1)])) for i in range(2)]
      for t in ths:
        t.start()
      for t in ths:
        t.join()
      s.quiesce()
    except ds.Verdict as v:
      ctx.violation('C05/%s' % v.kind, 'directed schedule ended in %s: %r' % (v.kind, (v.info or {}).get('blocked')), wit)
      return
    ctx.count('directed_schedules_run')
    if s.wp_i == len(s.waypoints):
      ctx.count('directed_schedules_followed_to_the_end')
    ctx.distinct(('directed', tuple(kinds), s.wp_i))
    exc = [(t.name, t.role, repr(t.exc)) for t in s.threads if t.exc is not None]
    left, tokens = len(ao.locking_deque.deque), ds._q.Queue.qsize(ao.locking_deque.locking_queue)
    wit.update(waypoints_reached=s.wp_i, of=len(s.waypoints), dispatched=[d['uid'] for d in hist.dispatch], switch_trail_tail=s.trail[-30:])
    if exc:
      ctx.violation('C05/exception-in-thread', 'directed schedule: a thread died: %r' % exc, wit)
    elif left:
      ctx.violation('C05/quiescent-with-events-left', 'directed schedule (%s): both posters have finished and no thread can run, but %d event(s) are still queued with %d wake-up token(s): a lost wake-up - the consumer sleeps on a non-empty queue' % (
        wit['directed'], left, tokens), wit)
  finally:
    z = ds.uninstall()
    if z:
      ctx.count('zombie_threads', z)


def directed_full_queue_case(ctx, n):
  """DIRECTED schedule, witness 2 ('own post split by an outside poster at a full queue'): an object whose queue holds
  capacity-1 events handles one whose handler posts to the object itself; the object's thread has looked at the wake-up token
  queue (one slot free) when an outside poster posts an event - and fills that slot - and finishes; the object's own post must
  still return (its thread is the only one that ever takes a token), and the system must reach quiescence on an empty queue"""
  import miros.hsm as H
  from miros.event import signals, return_status as RS
  rng = ctx.rng('directed-full', n)
  cap = rng.choice([2, 3, 4])
  own_kind, outside_kind = rng.choice(['fifo', 'lifo']), rng.choice(['fifo', 'lifo'])
  s = ds.Sched(seed=1, policy='directed', max_steps=400000)
  hist = aosim.History()
  aosim.install(s)
  try:
    saved = H.HsmWithQueues.QUEUE_SIZE
    H.HsmWithQueues.QUEUE_SIZE = cap
    try:
      ao = aosim.make_ao(hist, instrumented=rng.random() < 0.5)
    finally:
      H.HsmWithQueues.QUEUE_SIZE = saved
    gate = [False]

    def st(chart, e):
      if e.signal in (signals.ENTRY_SIGNAL, signals.INIT_SIGNAL, signals.EXIT_SIGNAL):
        return RS.HANDLED
      if e.signal_name == 'EVT':
        if e.payload == 0:
          ds.S.wait_until(lambda: gate[0], 'gate')          # holds the object's thread while the queue is filled
        if e.payload == 1:
          (chart.post_fifo if own_kind == 'fifo' else chart.post_lifo)(Event(signal='EVT', payload=10))
        return RS.HANDLED
      chart.temp.fun = chart.top
      return RS.SUPER
    st.__name__ = 'c05_full_state'
    state = H.spy_on(st) if rng.random() < 0.5 else st
    consumer = lambda t: t.role == 'run_event'
    outside = lambda t: t.role == 'outside_poster'
    s.waypoints = [(consumer, lambda loc: gate[0] and loc == 'Queue.full:returned'), (outside, 'finished')]
    wit = {'directed': 'own post split by an outside poster at a full queue', 'capacity': cap, 'own_post': own_kind, 'outside_post': outside_kind}

    def outside_poster():
      ds.S.wait_until(lambda: s.wp_i >= 1, 'the object has looked at its token queue')
      (ao.post_fifo if outside_kind == 'fifo' else ao.post_lifo)(Event(signal='EVT', payload=20))
    try:
      ao.start_at(state)
      s.quiesce()
      ao.post_fifo(Event(signal='EVT', payload=0))
      s.quiesce()                       # the object's thread now waits inside the handler of event 0
      for u in range(1, cap + 1):
        ao.post_fifo(Event(signal='EVT', payload=u))
      t = ds.SThread(target=outside_poster)
      t.start()
      gate[0] = True
      t.join()
      s.quiesce()
      blocked = s.blocked_report()
    except ds.Verdict as v:
      ctx.violation('C05/%s' % v.kind, 'directed schedule (%s) ended in %s: %r' % (wit['directed'], v.kind, (v.info or {}).get('blocked')), wit)
      return
    ctx.count('directed_schedules_run')
    ctx.count('directed_full_queue_schedules_run')
    if s.wp_i == len(s.waypoints):
      ctx.count('directed_schedules_followed_to_the_end')
    ctx.distinct(('directed-full', cap, own_kind, outside_kind, s.wp_i))
    exc = [(t.name, t.role, repr(t.exc)) for t in s.threads if t.exc is not None]
    left, tokens = len(ao.locking_deque.deque), ds._q.Queue.qsize(ao.locking_deque.locking_queue)
    wit.update(waypoints_reached=s.wp_i, of=len(s.waypoints), dispatched=[d['uid'] for d in hist.dispatch], blocked_threads=blocked, switch_trail_tail=s.trail[-30:])
    if exc:
      ctx.violation('C05/exception-in-thread', 'directed schedule: a thread died: %r' % exc, wit)
    elif left:
      ctx.violation('C05/quiescent-with-events-left', 'directed schedule (%s): every poster has finished and no thread can run, but %d event(s) are still queued with %d wake-up token(s); blocked threads: %r' % (
        wit['directed'], left, tokens, [b for b in blocked if b[1] == 'run_event']), wit)
  finally:
    z = ds.uninstall()
    if z:
      ctx.count('zombie_threads', z)


SYS = {'quick': (2, 1, 2000, 45.0), 'thorough': (32, 1, 100000, 150.0)}     # systematic cases, deviation bound, schedule cap, seconds cap (per scenario)


def run_case(ctx, n):
  if n % 50 == 49:
    return directed_case(ctx, n)
  if n % 50 == 24:
    return directed_full_queue_case(ctx, n)
  sysx.run_case(ctx, n, SYS, scenario)


def scenario(ctx, n):
  rng = ctx.rng('case', n)
  plans, fan, nev = gen_plan(rng)
  if getattr(ctx, 'small', False):
    # systematic exploration: two posters with one event each (one of them lifo in half of the scenarios), no handler posts
    plans, fan, nev = [[('fifo', 1)], [(rng.choice(['fifo', 'lifo']), 2)]], {}, 2
  spied, instrumented = rng.random() < 0.5, rng.random() < 0.7
  extras = None
  if spied and instrumented and rng.random() < 0.45:
    # live spy / live trace output switched on: the consumer hands every line of a finished step to the writer thread
    extras = {'live': (True, rng.random() < 0.5)}
    ctx.count('runs_with_live_output_on')
  if not getattr(ctx, 'small', False) and rng.random() < 0.15:
    # posters racing at a full queue: capacity 2-4, three events per planned post
    extras = dict(extras or {}, capacity=rng.choice([2, 3, 4]))
    if rng.random() < 0.4:
      extras['subclass_capacity'] = extras['capacity'] * rng.choice([2, 3])
      ctx.count('runs_with_a_class_level_queue_size_above_the_library_constant')
    plans = [[(k, u * 10 + j) for j in range(3)] for pl in plans for (k, u) in pl][:4]
    fan, nev = {}, sum(len(p) for p in plans)
    if rng.random() < 0.6:
      # ... and the handlers of some of these events post further events themselves (fifo / lifo): a post made by the object's own
      # thread while its queue - and the wake-up token queue behind it - is full
      nxt = max(u for pl in plans for _, u in pl) + 1
      for pl in plans:
        for _, u in pl:
          if rng.random() < 0.4:
            fan[u] = [(rng.choice(['fifo', 'lifo', 'lifo']), nxt + j) for j in range(rng.randint(1, 2))]
            nxt += 2
      nev += sum(len(v) for v in fan.values())
      if fan:
        ctx.count('runs_with_handler_posts_at_a_full_queue')
    ctx.count('runs_with_small_queue_capacity')
  result, s, hist, ao = run_scenario(ctx, rng, plans, fan, nev, spied, instrumented, extras=extras)
  ctx.count('runs')
  if len(plans) >= 2:
    ctx.count('runs_with_racing_posters')
  ctx.maxc('max_steps_of_a_completed_run', result.get('steps', 0))
  wit = {'plans': plans, 'fan': fan, 'spied': spied, 'instrumented': instrumented, 'live_output': (extras or {}).get('live'), 'queue_capacity': (extras or {}).get('capacity') or 500, 'policy': s.policy, 'p_switch': s.p_switch,
         'rr_after': s.rr_after, 'switch_trail_tail': s.trail[-25:]}
  if len(plans) >= 2 or fan:
    ctx.distinct(s.signature())
  if result['verdict'] == 'step-budget':
    key = 'C05/livelock-token-queue-overfilled' if result['tokens'] > result['pending'] + 1 else 'C05/no-progress-within-budget'
    ctx.violation(key, 'after a fair round-robin suffix the system did not reach quiescence within %d yield points: %d posts never returned (%r), %d wake-up tokens for %d pending events' % (
      s.max_steps, len(result['unreturned_posts']), [p['uid'] for p in result['unreturned_posts']], result['tokens'], result['pending']), dict(wit, info=result['info']))
  elif result['verdict'] == 'livelock-cycle':
    ctx.violation('C05/livelock-cycle', 'a FAIR periodic schedule was found under which a post never returns: the same global state (tokens %d, pending %d, same thread positions, no post returned, nothing dispatched) recurred %d times in a row while the threads %r kept running; cycle locations %r' % (
      result['tokens'], result['pending'], result['info']['repetitions'], sorted(set(result['info']['cycle_threads'])), result['info']['locations'][:14]), dict(wit, info=result['info']))
  elif result['verdict'] == 'deadlock':
    ctx.violation('C05/deadlock', 'all threads blocked while a poster has not finished: %r' % (result['info']['blocked'],), dict(wit, info=result['info']))
  elif result['thread_exceptions']:
    ctx.violation('C05/exception-in-thread', 'a thread died: %r' % result['thread_exceptions'], wit)
  elif len(ao.locking_deque.deque) != 0:
    ctx.violation('C05/quiescent-with-events-left', 'every poster has finished and no thread can run, but %d events are still queued (%d wake-up tokens): the system is not quiescent in the sense of the statement (consumer waiting on an EMPTY queue)' % (
      len(ao.locking_deque.deque), ds._q.Queue.qsize(ao.locking_deque.locking_queue)), dict(wit, blocked_threads=result.get('blocked_at_quiescence')))
  if n < 2:
    ctx.sample({'plans': plans, 'fan': fan, 'steps': result.get('steps'), 'switches': result.get('switches'), 'trail_head': s.trail[:15]})
