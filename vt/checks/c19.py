"""C19 -- the spy log records exactly the state invocations the processor made."""
from vt import qcheck, chartgen as cg, hosts, qrun

ID = 'C19'
ENGINE = 'chartgen+model'
RULE = ('generated spied charts with side actions (posts, defer, recall, scribble) on HsmWithQueues, ActiveObject (posted to only '
        'while idle) and InstrumentedHsmEventProcessor; after every step spy_rtc() must equal the line list computed from the '
        'ground-truth invocation log recorded inside the undecorated handlers (SIG:state per invocation, SIG:state:HOOK right after a '
        'user-signal invocation that returned HANDLED, POST_FIFO/POST_LIFO/POST_DEFERRED/RECALL/scribble lines where they happened, '
        'START, queue reflection last) and spy() must equal the concatenation of the step logs cut to the 500-line ring (long runs cross '
        'it); in half of the runs the client calls clear_spy() / clear_trace() once or twice early on, after which the full spy must be the concatenation of the step logs SINCE the clear, again cut to the ring. In a third of the runs live spy / live trace output is switched on (the step log and the full spy must not depend on it). distinct_nontrivial = distinct (host, lines in the run, number of marker lines, ring crossed) tuples')
CASES = {'quick': 2500, 'thorough': 150000}
BUDGET = {'quick': 150, 'thorough': 300}
REQUIRE = {'spy_step_logs': 20000, 'full_spy_ring_crossed': 20, 'instr_host_runs': 165, 'clear_spy_calls': 200, 'runs_with_live_output_on': 223}
ASSUME = ['steps produce fewer than 250 spy lines (beyond the per-step ring the statement is silent; such steps are counted and skipped)',
          'posts from other threads while a step runs are not part of this property (C04)']


def run_case(ctx, n):
  rng = ctx.rng('kind', n)
  if rng.random() < 0.2:
    return instr_host_case(ctx, n)
  r = qcheck.run_qcase(ctx, n, ('C19',), with_queries=n % 2 == 0, long_run=rng.random() < 0.3, clears=True, live=n % 3 == 0, restarts=True)
  if n % 3 == 0:
    ctx.count('runs_with_live_output_on')
  if r is None:
    return
  res, spec, cfg = r
  if res.spy_full is not None:
    marks = sum(1 for s in res.steps for x in s['calls'] if x[0] == 'mark')
    total = sum(len(s['spy_rtc'] or ()) for s in res.steps)
    ctx.distinct((cfg['host'], total, marks, total > 500))


def instr_host_case(ctx, n):
  rng = ctx.rng('instr', n)
  spec = cg.gen_spec(rng, nmax=10, name_style=rng.choice(cg.NAME_STYLES))
  start = rng.randrange(spec['n'])
  script = cg.gen_script(rng, spec, rng.randint(5, 120))
  res = hosts.run_config(spec, start, script, {'host': 'instr', 'spied': True})
  ctx.count('instr_host_runs')
  wit = {'spec': spec, 'start': start, 'script': script, 'config': 'InstrumentedHsmEventProcessor'}
  if res.error:
    ctx.count('other_property_disagreements')
    return
  full = []
  for k, calls in enumerate(res.calls):
    exp = (['START'] if k == 0 else []) + qrun.expected_spy_lines(calls)
    ctx.count('spy_step_logs')
    if res.spy_rtc[k] != exp:
      ctx.violation('C19/step-spy-differs', 'rtc spy after step %d: %r expected %r' % (k - 1, res.spy_rtc[k], exp), dict(wit, failing_step=k - 1))
      return
    full += exp
  if len(full) > 500:
    ctx.count('full_spy_ring_crossed')
  ctx.distinct(('instr', len(full), 0, len(full) > 500))
  if res.spy_full != full[-500:]:
    ctx.violation('C19/full-spy-differs', 'full spy differs from the concatenation of the step logs', wit)
