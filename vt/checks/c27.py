"""C27 -- thread-safe attributes lose no updates and never fail under concurrency."""
import miros.thread_safe_attributes as TSA
from vt import detsched as ds, wl_c27, sysx, osback

ID = 'C27'
ENGINE = 'detsched'
TECHNIQUE = 'runtime monitoring under a deterministic cooperative scheduler (opcode-level yield points in miros/thread_safe_attributes.py and in the workload statements): serial-equivalence oracle, exception and deadlock detection; a few small scenarios per run are enumerated systematically (every schedule within a delay bound, vt/sysx.py)'
RULE = ('2-4 real threads execute 1-3 statements each on one shared object: o.a OP= c for every augmented-assignment operator of integers (+= -= *= <<= >>= //= %= |= &= ^=), o.a = k, x = o.a (and o.b += c on a '
        'second attribute), starting from a random initial value (0, 1, 3, 12); the statements are real source lines of vt/wl_c27.py; detsched switches at every bytecode boundary of '
        'ThreadSafeAttribute.__get__/__set__ and of the statements themselves (so between the descriptor\'s get and set), seeded random / '
        'PCT schedules (in a fifth of the runs one thread is held for 2.5 s of virtual time in the middle of a statement by an injected delay; the cooperative lock honours acquire timeouts in virtual time); a thread that raises, a quiescent state with an unfinished thread (deadlock), a read that returns a value no serial '
        'order can produce, or a final value outside the set of final values of all serial orders of the same statements (computed by '
        'dynamic programming over the interleavings of whole statements) is a violation. distinct_nontrivial = distinct context-switch '
        'sequences of runs mixing >= 2 statement kinds. Every twentieth case repeats the workload (2-5 threads x 2-6 statements) on REAL threads with the real RLock (vt/osback.py: nothing substituted, switch interval 1 us, random yields at line starts of miros code and of the statements); a run that does not finish in the wall-clock limit is inconclusive there, never a verdict. ' + sysx.RULE_TEXT % (1, 1))
CASES = {'quick': 2500, 'thorough': 150000}
BUDGET = {'quick': 150, 'thorough': 600}
REQUIRE = {'runs': 1000, 'runs_mixing_plain_and_augmented': 300, 'switch_between_get_and_set': 200, 'systematic_schedules': 300, 'systematic_scenarios_exhausted': 1, 'os_backend_runs': 20, 'runs_with_a_thread_held_inside_a_statement': 100, 'runs_with_shift_operators': 300}
ASSUME = ['statement-level atomicity is the reference: the set of legal outcomes is that of all serial orders of whole statements']
ANNOUNCE_CASES = True


def serial_outcomes(plans, init=0):
  """all final values of 'a' reachable by interleaving whole statements"""
  from functools import lru_cache
  n = len(plans)

  @lru_cache(maxsize=None)
  def go(pos, val):
    if all(pos[i] == len(plans[i]) for i in range(n)):
      return frozenset([val])
    out = set()
    for i in range(n):
      if pos[i] < len(plans[i]):
        op, arg = plans[i][pos[i]]
        v = val
        if op in wl_c27.APPLY:
          v = wl_c27.APPLY[op](val, arg)
        elif op == '=':
          v = arg
        np = pos[:i] + (pos[i] + 1,) + pos[i + 1:]
        out |= go(np, v)
    return frozenset(out)
  return go(tuple(0 for _ in plans), init)


SYS = {'quick': (8, 1, 3000, 75.0), 'thorough': (64, 1, 100000, 120.0)}     # systematic cases, deviation bound, schedule cap, seconds cap (per scenario)


def run_case(ctx, n):
  if n % 20 == 19:
    return os_case(ctx, n)
  sysx.run_case(ctx, n, SYS, scenario)


def os_case(ctx, n):
  """second opinion on real threads with the real RLock (vt/osback.py): nothing substituted, interleavings perturbed.  A run whose
  threads do not finish within the wall-clock limit is inconclusive here (detsched decides deadlock exactly)"""
  rng = ctx.rng('os', n)
  plans = []
  for t in range(rng.randint(2, 5)):
    plan = []
    for _ in range(rng.randint(2, 6)):
      plan.append(wl_c27.gen_op(rng))
    plans.append(tuple(plan))
  init = rng.choice([0, 1, 3, 12])

  class K(metaclass=TSA.MetaThreadSafeAttributes):
    _attributes = ['a', 'b']
  o = K()
  o.a = init
  outs = [[] for _ in plans]
  with osback.Perturb(rng.randrange(1 << 30), p_yield=rng.choice([0.1, 0.3, 0.6]), extra_files=(wl_c27.__file__,)) as P:
    finished, excs = osback.run_threads([(wl_c27.worker, (o, pl, outs[i])) for i, pl in enumerate(plans)], limit=20.0)
  ctx.count('os_backend_yields_injected', P.nyields)
  wit = {'backend': 'os threads', 'plans': plans, 'initial_value': init}
  if excs:
    ctx.count('os_backend_runs')
    ctx.violation('C27/exception-in-thread', 'real threads: a thread using the attribute raised: %r' % excs, wit)
    return
  if not finished:
    ctx.count('os_backend_inconclusive')
    return
  ctx.count('os_backend_runs')
  final = []
  ok, _ = osback.run_threads([(lambda: final.append(o.a), ())], limit=10.0)
  if not ok:
    ctx.count('os_backend_inconclusive')
    return
  legal = serial_outcomes(tuple(tuple(x for x in pl if x[0] != 'b+=') for pl in plans), init)
  if final[0] not in legal:
    ctx.violation('C27/lost-update', 'real threads: final value %r is not the result of any serial order of the statements (legal: %r)' % (final[0], sorted(legal)[:12]), wit)


def scenario(ctx, n):
  rng = ctx.rng('case', n)
  small = getattr(ctx, 'small', False)
  nthreads = 2 if small else rng.randint(2, 4)
  plans = []
  for t in range(nthreads):
    plan = []
    for _ in range((1 if ctx.tier == 'quick' else rng.randint(1, 2)) if small else rng.randint(1, 3)):
      plan.append(wl_c27.gen_op(rng))
    plans.append(tuple(plan))
  init = rng.choice([0, 1, 3, 12])
  pol = dict(policy='random', p_switch=rng.choice([0.03, 0.1, 0.3])) if rng.random() < 0.6 else dict(policy='pct', pct_depth=rng.choice([2, 3, 4]), pct_len=600)
  s = ds.Sched(seed=rng.randrange(1 << 30), max_steps=300000, **pol)
  ds.install(s, op_mods=[TSA, wl_c27])
  if not small and rng.random() < 0.2:
    # a thread is held for 2.5 s of virtual time in the middle of one of its statements (possibly between the __get__ and the
    # __set__ of an augmented assignment, holding the lock): everybody else just has to wait that long
    s.inject = {'match': lambda me, loc: me.role == 'worker' and isinstance(loc, tuple) and loc[0] in wl_c27.AUG_FUNCS + ('setk', 'rd'),
                'visit': rng.randint(1, 40), 'sleep': 2.5}
    ctx.count('runs_with_a_thread_held_inside_a_statement')
  try:
    class K(metaclass=TSA.MetaThreadSafeAttributes):
      _attributes = ['a', 'b']
    o = K()
    o.a = init
    outs = [[] for _ in plans]
    kinds = set(op for pl in plans for op, _ in pl)
    if kinds & {'<<=', '>>='}:
      ctx.count('runs_with_shift_operators')
    wit = {'plans': plans, 'policy': pol, 'initial_value': init}
    try:
      ths = [ds.SThread(target=wl_c27.worker, args=(o, pl, outs[i])) for i, pl in enumerate(plans)]
      for t in ths:
        t.start()
      for t in ths:
        t.join()
      s.quiesce()
    except ds.Verdict as v:
      ctx.count('runs')
      exc = [(t.name, repr(t.exc)) for t in s.threads if t.exc is not None]
      ctx.violation('C27/%s' % v.kind, 'threads using the attribute ended in %s (blocked: %r; thread exceptions %r)' % (v.kind, (v.info or {}).get('blocked'), exc), dict(wit, trail=s.trail[-40:]))
      return
    ctx.count('runs')
    if len(kinds) >= 2:
      ctx.distinct(s.signature())
    if '=' in kinds and kinds & set(wl_c27.APPLY):
      ctx.count('runs_mixing_plain_and_augmented')
    # coverage: a context switch away from a thread that is inside an augmented assignment (between get and set)
    for (a, b, loc) in s.trail:
      if isinstance(loc, tuple) and loc[0] in wl_c27.AUG_FUNCS:
        ctx.count('switch_between_get_and_set')
        break
    exc = [(t.name, repr(t.exc)) for t in s.threads if t.exc is not None]
    wit['trail'] = s.trail[-40:]
    if exc:
      ctx.violation('C27/exception-in-thread', 'a thread using the attribute raised: %r' % exc, wit)
      return
    # read the final value without the descriptor machinery interfering with a possibly stuck lock: a probe thread
    final = []

    def probe():
      final.append(o.a)
    try:
      p = ds.SThread(target=probe)
      p.start()
      p.join()
    except ds.Verdict as v:
      ctx.violation('C27/lock-left-held', 'after all threads finished another thread cannot read the attribute (%s): the lock was left held' % v.kind, wit)
      return
    legal = serial_outcomes(tuple(tuple(x for x in pl if x[0] != 'b+=') for pl in plans), init)
    if final[0] not in legal:
      ctx.violation('C27/lost-update', 'final value %r is not the result of any serial order of the statements (legal: %r)' % (final[0], sorted(legal)[:12]), wit)
      return
    if n < 3:
      ctx.sample({'plans': plans, 'final': final[0], 'legal_finals': sorted(legal)[:10], 'switches': s.switches})
  finally:
    z = ds.uninstall()
    if z:
      ctx.count('zombie_threads', z)
