"""C24 -- impossible initial transitions raise instead of hanging."""
import copy

from miros.event import Event
from miros.hsm import HsmEventProcessor, HsmWithQueues, HsmTopologyException
from vt import chartgen as cg

ID = 'C24'
ENGINE = 'chartgen+model'
RULE = ('generated well-formed charts with exactly ONE injected fault: (a) a state whose initial transition targets a state that is not '
        'nested inside it (its parent, an ancestor, a sibling, an unrelated state, itself), reached by start_at or by a later dispatch '
        'from every topology class; (b) a state that returns None when a user event is offered to it; (c) a state whose handler never returns a status at all (forgotten return), reached by being offered an event, by start_at entering it, or by a transition whose entry / init path leads into it. Whenever the reference model says '
        'the faulty init runs / the event is offered to the faulty state, the call must raise HsmTopologyException within the step '
        'budget (budget overrun = hangs) and must not run any entry/exit/init after the faulty point; every other step must still agree '
        'with the model. distinct_nontrivial = distinct (fault kind, target relation, reached by, topology class) tuples')
CASES = {'quick': 6000, 'thorough': 300000}
BUDGET = {'quick': 150, 'thorough': 300}
REQUIRE = {'fault_reached_by_start': 300, 'fault_reached_by_dispatch': 300, 'none_offers': 136, 'statusless_state_entered_by_dispatch': 100, 'statusless_state_entered_by_start': 100}
ASSUME = ['exactly one fault per chart; handlers returning None for exit / super-search signals are outside the statement and not injected']


EXIT_FAULTS = True


def relation(spec, f, t):
  if t == f:
    return 'self'
  if t in cg.anc(spec, f):
    return 'parent' if spec['parent'][f] == t else 'ancestor'
  if spec['parent'][t] == spec['parent'][f]:
    return 'sibling'
  return 'unrelated'


def run_case(ctx, n):
  rng = ctx.rng('case', n)
  spec = cg.gen_spec(rng, nmax=rng.choice([4, 8, 14]), shape=rng.choice([None, None, 'chain', 'two']), guards=False)
  N = spec['n']
  f = rng.randrange(N)
  host_cls = rng.choice([HsmEventProcessor, HsmEventProcessor, HsmWithQueues])
  spied = host_cls is HsmWithQueues and rng.random() < 0.5
  r0 = rng.random()
  if r0 < 0.25:
    # a handler that never returns a status (forgotten return statement)
    fault = {'kind': 'none_always', 'state': f}
    mspec = copy.deepcopy(spec)
    for key in list(mspec['react']):
      if key.startswith('%d:' % f):
        del mspec['react'][key]
    mspec['clauses'][f] = [False, False, False]
    mspec['init'][f] = None
    spec = copy.deepcopy(mspec)
  elif r0 < 0.36 and EXIT_FAULTS:
    # a handler that returns no status for EXIT only (its exit clause forgets the return)
    fault = {'kind': 'none_on_exit', 'state': f}
    mspec = copy.deepcopy(spec)
    mspec['clauses'][f][1] = True
    spec = copy.deepcopy(mspec)
  elif r0 < 0.45:
    fault = {'kind': 'none_on_user', 'state': f}
    mspec = copy.deepcopy(spec)
    for key in list(mspec['react']):
      if key.startswith('%d:' % f):
        del mspec['react'][key]
  else:
    kids = cg.children_of(spec['parent'])
    bad = [t for t in range(N) if t not in cg.descendants(kids, f)]
    t = rng.choice(bad)
    fault = {'kind': 'bad_init', 'state': f, 'target': t, 'relation': relation(spec, f, t)}
    mspec = copy.deepcopy(spec)
    mspec['init'][f] = None
    mspec['clauses'][f][2] = True
    spec = copy.deepcopy(mspec)   # the faulty state does have an init clause
  run = cg.Run(spec, spied=spied, fault=fault)
  model = cg.Model(mspec)
  chart = cg.counted_host(host_cls, run)()
  names = spec['names']
  start = rng.randrange(N)
  script = cg.gen_script(rng, spec, rng.randint(5, 30), p_unknown=0.03)
  wit = {'spec': spec, 'fault': fault, 'start': start, 'script': script, 'host': host_cls.__name__, 'spied': spied}

  def attempt(fn, reached, where, k):
    """returns 'stop' when the run cannot continue"""
    run.reset_logs()
    try:
      fn()
      raised = None
    except HsmTopologyException:
      raised = 'topology'
    except cg.Budget:
      raised = 'budget'
    except Exception as ex:
      raised = '%s: %s' % (type(ex).__name__, ex)
    acts = [r for r in run.log if r[0] in ('entry', 'exit', 'init')]
    if reached:
      ctx.distinct((fault['kind'], fault.get('relation'), where))
      if raised == 'topology':
        if fault['kind'] == 'bad_init':
          i = acts.index(('init', names[f])) if ('init', names[f]) in acts else None
          if i is None or acts[i + 1:]:
            ctx.violation('C24/enters-states-after-impossible-init', '%s: after the impossible init of %s these actions still ran: %r' % (where, names[f], acts[i + 1:] if i is not None else acts), dict(wit, failing_step=k))
        elif acts and fault['kind'] == 'none_on_user':
          ctx.violation('C24/actions-before-none-status-detected', '%s: actions %r ran although %s returned no status' % (where, acts, names[f]), dict(wit, failing_step=k))
        return 'stop'
      if raised == 'budget':
        ctx.violation('C24/%s-hangs/%s' % (fault['kind'], 'start' if where == 'start_at' else 'dispatch'), '%s: the processor does not terminate (step budget of %d handler calls exceeded) instead of raising HsmTopologyException' % (where, run.budget), dict(wit, failing_step=k))
        return 'stop'
      ctx.violation('C24/%s-not-rejected/%s' % (fault['kind'], 'start' if where == 'start_at' else 'dispatch'), '%s: expected HsmTopologyException, got %s; actions %r' % (where, raised or 'no exception', acts), dict(wit, failing_step=k))
      return 'stop'
    if raised is not None:
      ctx.count('other_property_disagreements')
      return 'stop'
    return acts

  exp = model.start(start)
  reached = (fault['kind'] == 'bad_init' and model.cur == f) or (fault['kind'] == 'none_always' and f in model.touched)
  if reached:
    ctx.count('fault_reached_by_start' if fault['kind'] == 'bad_init' else 'statusless_state_entered_by_start')
  r = attempt(lambda: chart.start_at(run.fns[start]), reached, 'start_at', -1)
  if r == 'stop':
    return
  if r != exp:
    ctx.count('other_property_disagreements')
    return
  for k, sn in enumerate(script):
    prev = model.cur
    lenient = False
    exp_log, kind, S, T = model.dispatch(sn)
    if fault['kind'] == 'bad_init':
      reached = kind == 'tran' and model.cur == f
      if reached:
        ctx.count('fault_reached_by_dispatch')
        where = 'dispatch topology ' + cg.topo_class(mspec, S, T)
    elif fault['kind'] == 'none_always':
      offered = ('offer', names[f], sn) in exp_log
      led_into = kind == 'tran' and f in model.touched
      reached = offered or led_into
      if offered:
        ctx.count('none_offers')
        where = 'dispatch'
      elif led_into:
        ctx.count('statusless_state_entered_by_dispatch')
        where = 'dispatch topology %s leading into the status-less state' % cg.topo_class(mspec, S, T)
      elif kind == 'tran' and (f in cg.anc(mspec, T) or f in cg.anc(mspec, prev)):
        lenient = True       # only asked for its parent during the search: not constrained by the statement
    elif fault['kind'] == 'none_on_exit':
      reached = ('exit', names[f]) in exp_log
      if reached:
        ctx.count('statusless_exit_reached')
        exited = [r[1] for r in exp_log if r[0] == 'exit']
        where = 'dispatch topology %s, %s' % (cg.topo_class(mspec, S, T), 'exit of the source state' if names[S] == names[f] else ('exit below the source state' if exited.index(names[f]) < (exited.index(names[S]) if names[S] in exited else len(exited)) else 'exit above the source state'))
    else:
      reached = ('offer', names[f], sn) in exp_log
      if reached:
        ctx.count('none_offers')
        where = 'dispatch'
    if host_cls is HsmWithQueues:
      def go():
        chart.post_fifo(Event(signal=sn))
        chart.next_rtc()
    else:
      def go():
        chart.dispatch(Event(signal=sn))
    if lenient:
      try:
        go()
      except (HsmTopologyException, cg.Budget, Exception):
        pass
      ctx.count('search_only_steps_not_judged')
      return
    r = attempt(go, reached, where if reached else 'dispatch', k)
    if r == 'stop':
      return
    if r != [x for x in exp_log if x[0] in ('entry', 'exit', 'init')]:
      ctx.count('other_property_disagreements')
      return
  if n < 3:
    ctx.sample(wit)
