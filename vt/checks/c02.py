"""C02 -- events bubble outward; handled or ignored events change nothing."""
from vt import chartgen as cg, seqrun

ID = 'C02'
RULE = ('same generator as C01 with scripts biased to hooks, guards (including guards whose handler calls chart.trans() and then vetoes, or queries is_in / child_state, before it declines) and unanswered signals; per step the ground-truth '
        'offer log of the generated handlers must equal the path current state -> answering state predicted by the '
        'reference model (guard declines pass outward), and on handled / ignored steps no entry/exit/init action may '
        'run and state_name must not change (a lost search pointer shows up in the next step\'s offer log). In every second case '
        'client code calls is_in / child_state on random states between two events (read-only queries): the next event must still be '
        'offered to the current state first. Every fourth case runs on HsmWithQueues (instrumented or not, handlers under spy_on or plain) stepped through dispatch(), and the queries between events then include current_state(). '
        'distinct_nontrivial = distinct (kind, offer-path length, number of declines, depth of current state) tuples '
        'of non-transition steps plus the transition tuples of C01')
CASES = {'quick': 30000, 'thorough': 600000}
BUDGET = {'quick': 150, 'thorough': 300}
REQUIRE = {'handled_steps': 1000, 'ignored_steps': 1000, 'declines': 200, 'hooks_at_depth_3': 5, 'guards_touching_search_pointer': 1000, 'client_queries_between_steps': 20000, 'runs_on_a_queued_host': 3000, 'current_state_queries_between_steps': 2000}
ASSUME = ['generated charts are well-formed', 'offers are observed inside the undecorated handler (one record per invocation with a user signal)']


def run_case(ctx, n):
  rng = ctx.rng('case', n)
  params = seqrun.pick_params(rng, ctx.tier)
  spec = cg.gen_spec(rng, decline_pre=True, clause_queries=n % 3 == 0, **params)
  # bias: more hooks and guards than C01
  for key, r in list(spec['react'].items()):
    if r['k'] == 'T' and rng.random() < 0.5:
      spec['react'][key] = rng.choice([{'k': 'H'}, {'k': 'G', 't': r['t'], 'm': 2}, {'k': 'G', 't': None, 'm': rng.randint(2, 3)},
                                       {'k': 'G', 't': r['t'], 'm': 2, 'pre': ['trans', rng.randrange(spec['n'])]},
                                       {'k': 'G', 't': None, 'm': rng.randint(2, 3), 'pre': ['is_in', rng.randrange(spec['n'])]}])
    if spec['react'][key].get('pre'):
      ctx.count('guards_touching_search_pointer')
  start = rng.randrange(spec['n'])
  script = cg.gen_script(rng, spec, rng.randint(10, 60), p_unknown=0.15)
  kw = {}
  if n % 4 == 3:
    # a queued host (HsmWithQueues, instrumented or not, handlers under spy_on or plain) stepped through dispatch(); the client
    # queries between two events then include current_state()
    from miros.hsm import HsmWithQueues
    kw = dict(host_cls=HsmWithQueues, spied=rng.random() < 0.6, host_kwargs={'instrumented': rng.random() < 0.5})
    ctx.count('runs_on_a_queued_host')
  for prop, key, what, wit in seqrun.run_plain(ctx, rng, spec, start, script, query_rng=ctx.rng('queries', n) if n % 2 else None, **kw):
    if prop == 'C02' or (key.startswith('C0x') and 'C02' == prop):
      ctx.violation(key, what, wit)
    else:
      ctx.count('other_property_disagreements')
  if n < 2:
    ctx.sample({'spec': spec, 'start': start, 'script': script})
