"""C25 -- signal names and numbers form a stable one-to-one registry, even under threads."""
import miros.event as EV
from vt import detsched as ds, sysx, osback

ID = 'C25'
ENGINE = 'detsched'
TECHNIQUE = 'runtime monitoring: sequential registry model + deterministic cooperative scheduler at opcode granularity in miros/event.py with per-thread observation logs; a few small scenarios per run are enumerated systematically (every schedule within a delay bound, vt/sysx.py)'
RULE = ('(sequential part) random name sequences registered through append, attribute access and Event(name) (arbitrary strings incl. '
        'unicode/spaces/digits; identifiers for attribute access), checked after every operation against a dictionary model: distinct '
        'positive numbers, never changing, name_for_signal inverse, is_inner_signal true exactly for the ten built-ins, Event(name or number) '
        'reporting the matching pair. (concurrent part) 2-4 real threads register overlapping and disjoint names by all three routes and '
        'build events by number and ask is_inner_signal for built-in names / numbers on a FRESH SignalSource substituted for miros.event.signals, with detsched switching at every bytecode '
        'boundary inside miros/event.py (seeded random / PCT); any exception in a thread, any pair of names sharing a number, any number '
        'that differs between two observations, or an Event whose (signal, signal_name) pair disagrees with the final registry is a '
        'violation. Every twentieth case repeats the concurrent part on REAL threads with the real primitives (vt/osback.py: nothing substituted, switch interval 1 us, random yields at line starts of miros code). ' + sysx.RULE_TEXT % (1, 1) + 'distinct_nontrivial = distinct context-switch sequences with >= 2 threads registering')
CASES = {'quick': 1500, 'thorough': 100000}
BUDGET = {'quick': 150, 'thorough': 600}
REQUIRE = {'concurrent_runs': 500, 'sequential_ops': 5509, 'concurrent_registrations': 3000, 'systematic_schedules': 300, 'systematic_scenarios_exhausted': 1, 'os_backend_runs': 25}
ASSUME = ['each scheduled run works on a fresh SignalSource (the registry only grows; opcode-level runs over a large registry are too slow)']
ANNOUNCE_CASES = True
BUILTINS = ['ENTRY_SIGNAL', 'EXIT_SIGNAL', 'INIT_SIGNAL', 'REFLECTION_SIGNAL', 'EMPTY_SIGNAL', 'SEARCH_FOR_SUPER_SIGNAL',
            'STOP_FABRIC_SIGNAL', 'STOP_ACTIVE_OBJECT_SIGNAL', 'SUBSCRIBE_META_SIGNAL', 'PUBLISH_META_SIGNAL']


def fresh_registry():
  saved = EV.signals
  EV.signals = EV.SignalSource()
  return saved


def gen_name(rng, ident_only=False):
  r = rng.random()
  if ident_only or r < 0.6:
    return 'N%d' % rng.randrange(14)
  if r < 0.7:
    return rng.choice(['a b', '12', 'é', 'x.y', 'append', 'keys', '', 'ENTRY_SIGNAL', 'x' * 80])
  return 'M%d' % rng.randrange(8)


def sequential_case(ctx, rng):
  saved = fresh_registry()
  try:
    sig = EV.signals
    model = {}
    for i, b in enumerate(BUILTINS):
      model[b] = i + 1
    wit_ops = []
    for k in range(rng.randint(10, 60)):
      route = rng.choice(['append', 'attr', 'event', 'event_by_number', 'lookup'])
      ctx.count('sequential_ops')
      try:
        if route == 'append':
          nm = gen_name(rng)
          wit_ops.append((route, nm))
          sig.append(nm)
          model.setdefault(nm, len(model) + 1)
        elif route == 'attr':
          nm = gen_name(rng, ident_only=True)
          wit_ops.append((route, nm))
          v = getattr(sig, nm)
          model.setdefault(nm, len(model) + 1)
          if v != model[nm]:
            ctx.violation('C25/attribute-access-number', 'signals.%s returned %r, registry model %r' % (nm, v, model[nm]), {'ops': wit_ops})
            return
        elif route == 'event':
          nm = gen_name(rng)
          wit_ops.append((route, nm))
          e = EV.Event(signal=nm)
          model.setdefault(nm, len(model) + 1)
          if e.signal != model[nm] or e.signal_name != nm:
            ctx.violation('C25/event-pair', 'Event(%r) reports (%r, %r), registry model (%r, %r)' % (nm, e.signal, e.signal_name, model[nm], nm), {'ops': wit_ops})
            return
        elif route == 'event_by_number':
          nm = rng.choice(list(model))
          wit_ops.append((route, nm))
          e = EV.Event(signal=model[nm])
          if e.signal != model[nm] or e.signal_name != nm:
            ctx.violation('C25/event-pair', 'Event(%r) reports (%r, %r), registry model (%r, %r)' % (model[nm], e.signal, e.signal_name, model[nm], nm), {'ops': wit_ops})
            return
        else:
          nm = rng.choice(list(model))
          wit_ops.append((route, nm))
          if sig.name_for_signal(model[nm]) != nm or sig[nm] != model[nm]:
            ctx.violation('C25/inverse', 'name_for_signal(%r) = %r, expected %r' % (model[nm], sig.name_for_signal(model[nm]), nm), {'ops': wit_ops})
            return
          inner = nm in BUILTINS
          if sig.is_inner_signal(nm) is not inner or sig.is_inner_signal(model[nm]) is not inner:
            ctx.violation('C25/inner-signal', 'is_inner_signal(%r / %r) = %r / %r, expected %r' % (nm, model[nm], sig.is_inner_signal(nm), sig.is_inner_signal(model[nm]), inner), {'ops': wit_ops})
            return
      except Exception as ex:
        ctx.violation('C25/sequential-exception', '%s raised %s: %s' % (wit_ops[-1], type(ex).__name__, ex), {'ops': wit_ops})
        return
      if dict(sig) != model or min(sig.values()) < 1 or len(set(sig.values())) != len(sig):
        ctx.violation('C25/registry-differs', 'registry %r differs from the model %r' % (dict(sig), model), {'ops': wit_ops})
        return
    ctx.distinct(('seq', len(model), tuple(r for r, _ in wit_ops[:6])))
  finally:
    EV.signals = saved


SYS = {'quick': (8, 1, 3000, 75.0), 'thorough': (64, 1, 100000, 120.0)}     # systematic cases, deviation bound, schedule cap, seconds cap (per scenario)


def run_case(ctx, n):
  if n % 20 == 19:
    return os_case(ctx, n)
  sysx.run_case(ctx, n, SYS, scenario)


def os_case(ctx, n):
  """second opinion on real threads with the real primitives (vt/osback.py): nothing substituted, interleavings perturbed"""
  rng = ctx.rng('os', n)
  nthreads = rng.randint(2, 6)
  pool = ['N%d' % i for i in range(rng.randint(2, 5))]
  plans = [[(rng.choice(['append', 'attr', 'event', 'event+number', 'inner']), rng.choice(pool) if rng.random() < 0.8 else 'T%d_%d' % (t, rng.randrange(3)))
            for _ in range(rng.randint(2, 8))] for t in range(nthreads)]
  saved = fresh_registry()
  obs = []
  try:
    sig = EV.signals

    def worker(i, plan):
      for route, nm in plan:
        if route == 'append':
          sig.append(nm)
          obs.append((i, nm, sig[nm], 'append'))
        elif route == 'attr':
          obs.append((i, nm, getattr(sig, nm), 'attr'))
        elif route == 'inner':
          b = BUILTINS[(i + len(obs)) % 10]
          for arg, want in ((b, True), (BUILTINS.index(b) + 1, True)):
            got = sig.is_inner_signal(arg)
            if got is not want:
              obs.append((i, str(arg), None, 'is_inner_signal(%r):%r' % (arg, got)))
        else:
          e = EV.Event(signal=nm)
          obs.append((i, e.signal_name, e.signal, 'event'))
          if e.signal_name != nm:
            obs.append((i, nm, None, 'event-name-mismatch:%r' % e.signal_name))
          if route == 'event+number':
            e2 = EV.Event(signal=e.signal)
            if e2.signal_name != nm:
              obs.append((i, nm, e.signal, 'number-resolves-to:%r' % e2.signal_name))
    with osback.Perturb(rng.randrange(1 << 30), p_yield=rng.choice([0.1, 0.3, 0.6])) as P:
      finished, excs = osback.run_threads([(worker, (i, pl)) for i, pl in enumerate(plans)])
    ctx.count('os_backend_yields_injected', P.nyields)
    if not finished:
      ctx.count('os_backend_inconclusive')
      return
    ctx.count('os_backend_runs')
    wit = {'backend': 'os threads', 'plans': plans, 'observations': obs[:40], 'final_registry': dict(list(sig.items())[10:])}
    if excs:
      ctx.violation('C25/exception-in-thread', 'real threads: a thread using the registry died: %r' % excs, wit)
      return
    vals = list(sig.values())
    if len(set(vals)) != len(vals):
      ctx.violation('C25/two-names-one-number', 'real threads: names share a number: %r' % [(k, v) for k, v in sig.items() if vals.count(v) > 1], wit)
      return
    for (i, nm, num, how) in obs:
      if ':' in how:
        ctx.violation('C25/event-pair-under-threads', 'real threads: thread %d: %s for name %r (number %r)' % (i, how, nm, num), wit)
        return
      if sig.get(nm) != num:
        ctx.violation('C25/number-changed', 'real threads: thread %d observed %r -> %r via %s, the registry now says %r' % (i, nm, num, how, sig.get(nm)), wit)
        return
  finally:
    EV.signals = saved


def scenario(ctx, n):
  rng = ctx.rng('case', n)
  small = getattr(ctx, 'small', False)
  if n % 3 == 0 and not small:
    return sequential_case(ctx, rng)
  nthreads = 2 if small else rng.randint(2, 4)
  pool = ['N%d' % i for i in range(rng.randint(2, 3) if small else rng.randint(2, 6))]
  plans = []
  for t in range(nthreads):
    plan = []
    for _ in range(rng.randint(1, 2) if small else rng.randint(1, 4)):
      nm = rng.choice(pool) if rng.random() < 0.7 else 'T%d_%d' % (t, rng.randrange(3))
      plan.append((rng.choice(['append', 'attr', 'event', 'event+number', 'inner', 'lookup', 'lookup']), nm))
    plans.append(plan)
  pol = dict(policy='random', p_switch=rng.choice([0.05, 0.2, 0.5])) if rng.random() < 0.6 else dict(policy='pct', pct_depth=rng.choice([2, 3, 4]), pct_len=400)
  s = ds.Sched(seed=rng.randrange(1 << 30), max_steps=400000, **pol)
  ds.install(s, op_mods=[EV])
  saved = fresh_registry()
  obs = []
  try:
    sig = EV.signals

    def worker(i, plan):
      for route, nm in plan:
        if route == 'append':
          sig.append(nm)
          obs.append((i, nm, sig[nm], 'append'))
        elif route == 'attr':
          obs.append((i, nm, getattr(sig, nm), 'attr'))
        elif route == 'lookup':
          # number -> name lookups of names this thread has registered itself, while others register
          e = EV.Event(signal=nm)
          for _ in range(2):
            back = sig.name_for_signal(e.signal)
            if back != nm:
              obs.append((i, nm, e.signal, 'name_for_signal(%r):%r' % (e.signal, back)))
        elif route == 'inner':
          # the ten built-ins are inner signals, by name and by number, whatever other threads are registering meanwhile
          b = BUILTINS[(i + len(obs)) % 10]
          for arg, want in ((b, True), (BUILTINS.index(b) + 1, True), (nm, False)):
            if arg in sig or not isinstance(arg, str):
              got = sig.is_inner_signal(arg)
              if got is not want:
                obs.append((i, str(arg), None, 'is_inner_signal(%r):%r' % (arg, got)))
        elif route == 'event':
          e = EV.Event(signal=nm)
          obs.append((i, e.signal_name, e.signal, 'event'))
          if e.signal_name != nm:
            obs.append((i, nm, None, 'event-name-mismatch:%r' % e.signal_name))
        else:
          e = EV.Event(signal=nm)
          obs.append((i, e.signal_name, e.signal, 'event'))
          e2 = EV.Event(signal=e.signal)
          obs.append((i, e2.signal_name, e2.signal, 'event-by-number'))
          if e2.signal_name != nm:
            obs.append((i, nm, e.signal, 'number-resolves-to:%r' % e2.signal_name))
    try:
      ths = [ds.SThread(target=worker, args=(i, pl)) for i, pl in enumerate(plans)]
      for t in ths:
        t.start()
      for t in ths:
        t.join()
      s.quiesce()
    except ds.Verdict as v:
      ctx.violation('C25/' + v.kind, 'concurrent registration ended in %s: %r' % (v.kind, v.info), {'plans': plans})
      return
    ctx.count('concurrent_runs')
    ctx.count('concurrent_registrations', sum(len(p) for p in plans))
    ctx.distinct(s.signature())
    wit = {'plans': plans, 'policy': pol, 'observations': obs[:40], 'final_registry': dict(list(sig.items())[10:]), 'trail': s.trail[:60]}
    exc = [(t.name, repr(t.exc)) for t in s.threads if t.exc is not None]
    if exc:
      ctx.violation('C25/exception-in-thread', 'a thread using the registry died: %r' % exc, wit)
      return
    vals = list(sig.values())
    if len(set(vals)) != len(vals):
      dup = [(k, v) for k, v in sig.items() if vals.count(v) > 1]
      ctx.violation('C25/two-names-one-number', 'names share a number: %r' % dup, wit)
      return
    for (i, nm, num, how) in obs:
      if ':' in how:
        ctx.violation('C25/event-pair-under-threads', 'thread %d: %s for name %r (number %r)' % (i, how, nm, num), wit)
        return
      if sig.get(nm) != num:
        ctx.violation('C25/number-changed', 'thread %d observed %r -> %r via %s, the registry now says %r' % (i, nm, num, how, sig.get(nm)), wit)
        return
    if n < 3:
      ctx.sample({'plans': plans, 'final_registry_tail': dict(list(sig.items())[10:]), 'switches': s.switches})
  finally:
    EV.signals = saved
    z = ds.uninstall()
    if z:
      ctx.count('zombie_threads', z)
