"""C07 -- active-object publish/subscribe works in every configuration."""
import itertools

import miros.activeobject as AO
import miros.hsm as H
from miros.event import signals, Event, return_status as RS
from vt import detsched as ds, aosim

ID = 'C07'
ENGINE = 'detsched'
TECHNIQUE = 'runtime monitoring: configuration matrix driven under a deterministic cooperative scheduler; exactly-once checker over the dispatch logs of every subscriber after fabric quiescence'
RULE = ('the matrix {subscriber states spied / not} x {subscriber constructed instrumented / not} x {named / unnamed} x {subscribe before '
        'start_at / after it from outside / from inside one of its handlers} x {fifo, lifo} x {0, 1, 2 other active objects already '
        'subscribed to the same signal} x {publisher states spied / not} x {publish before the publisher\'s start_at / after it from outside '
        '/ from inside a handler}; in the subscribe-inside cells two further objects subscribe from inside their own handlers at the same time, each on its own thread; in half of the spied subscribe-after / publish-after cells live spy output is on and the object is busy finishing a step while subscribe() / publish() is called from outside; in most subscribe-after cells a publication is made right after subscribe() returned, without quiescence; in a fifth of the cells the running fabric is cleared (clear() without stop()) before the subscriber under test subscribes; every cell is driven under detsched (random / PCT schedules, quiescence between phases); each unique-id '
        'publication made after the subscription must be dispatched exactly once by the subscriber and by every earlier subscriber. In half of the subscribe-after cells with earlier subscribers a publication is still being handed to them while subscribe() is called (they must receive it once, nobody may die). '
        'distinct_nontrivial = distinct matrix cells run (x schedule in the thorough tier)')
CELLS = list(itertools.product((True, False), (True, False), (True, False), ('before', 'after', 'inside'), ('fifo', 'lifo'), (0, 1, 2),
                               (True, False), ('before', 'after', 'inside')))
CASES = {'quick': len(CELLS), 'thorough': len(CELLS) * 60}
BUDGET = {'quick': 150, 'thorough': 300}
REQUIRE = {'cells_run': 288, 'publications_checked': 1500, 'concurrent_subscribes': 96, 'cells_with_fabric_cleared_while_running': 60, 'outside_call_on_busy_object_with_live_spy': 38, 'publication_right_after_subscribe_returned': 56, 'subscribe_while_a_publication_is_being_delivered': 25}
ASSUME = ['decoration is all-or-none per chart; phases are followed by quiescence so "later publications" is unambiguous - except the publication made right after an outside subscribe() on a running object returned, which is later by program order']
ANNOUNCE_CASES = True


def make_state(hist, name, spied, sub_kind):
  def st(chart, e):
    sig = e.signal
    if sig == signals.ENTRY_SIGNAL or sig == signals.INIT_SIGNAL or sig == signals.EXIT_SIGNAL:
      return RS.HANDLED
    if e.signal_name == 'C07_PUB':
      hist.handled.append(e.payload)
      return RS.HANDLED
    if e.signal_name == 'DO_SUB':
      chart.subscribe(Event(signal='C07_PUB'), queue_type=sub_kind)
      return RS.HANDLED
    if e.signal_name == 'DO_PUB':
      chart.publish(Event(signal='C07_PUB', payload=e.payload))
      return RS.HANDLED
    chart.temp.fun = chart.top
    return RS.SUPER
  st.__name__ = name
  return H.spy_on(st) if spied else st


def run_case(ctx, n):
  cell = CELLS[n % len(CELLS)]
  s_spied, s_instr, s_named, s_when, kind, others, p_spied, p_when = cell
  rng = ctx.rng('case', n)
  pol = dict(policy='random', p_switch=rng.choice([0.05, 0.2, 0.5])) if rng.random() < 0.7 else dict(policy='pct', pct_depth=rng.choice([2, 3]), pct_len=2000)
  s = ds.Sched(seed=rng.randrange(1 << 30), max_steps=3000000, **pol)
  aosim.install(s)
  wit = {'cell': dict(zip(('subscriber_spied', 'subscriber_instrumented', 'subscriber_named', 'subscribe_when', 'queue_type', 'earlier_subscribers', 'publisher_spied', 'publish_when'), cell)), 'policy': pol}
  try:
    try:
      earlier = []
      for i in range(others):
        h = aosim.History()
        a = aosim.make_ao(h, name='other%d' % i)
        a.subscribe(Event(signal='C07_PUB'), queue_type=rng.choice(['fifo', 'lifo']))
        a.start_at(make_state(h, 'c07_other_%d' % i, True, 'fifo'))
        earlier.append((a, h))
      s.quiesce()
      # in half of the spied subscribe-after / publish-after cells live spy output is on and the object is busy finishing a step while subscribe() / publish() is called from outside; in most subscribe-after cells a publication is made right after subscribe() returned, without quiescence; in a fifth of the cells the running fabric is cleared (ActiveFabric().clear(), no stop) before the subscriber under test
      # arrives: the earlier subscribers lose their subscriptions (not judged here), later subscriptions must work as ever
      cleared = rng.random() < 0.2
      if cleared:
        AO.ActiveFabric().clear()
        ctx.count('cells_with_fabric_cleared_while_running')
        earlier_checked = []
      else:
        earlier_checked = earlier
      twins = []
      immediate = []
      during = []
      hs = aosim.History()
      sub = aosim.make_ao(hs, name='sub' if s_named else None, instrumented=s_instr)
      st = make_state(hs, 'c07_sub_state', s_spied, kind)
      if s_when == 'before':
        sub.subscribe(Event(signal='C07_PUB'), queue_type=kind)
        sub.start_at(st)
      elif s_when == 'after':
        busy = s_spied and s_instr and rng.random() < 0.5
        if busy:
          # live spy output on, and the object is busy finishing a step (handing its spy lines to the live callback) while
          # subscribe() is called from outside
          sub.live_spy = True
          sub.register_live_spy_callback(lambda line: None)
          ctx.count('outside_call_on_busy_object_with_live_spy')
        sub.start_at(st)
        s.quiesce()
        if busy or rng.random() < 0.3:
          sub.post_fifo(Event(signal='C07_NOISE'))
        if earlier_checked and rng.random() < 0.5:
          # a publication is still being handed to the EARLIER subscribers while subscribe() is called from outside (no
          # quiescence in between): the earlier subscribers must receive it once (the new one may or may not), nobody dies
          during.append(n * 10 + 8)
          AO.ActiveFabric().publish(Event(signal='C07_PUB', payload=n * 10 + 8))
          ctx.count('subscribe_while_a_publication_is_being_delivered')
        sub.subscribe(Event(signal='C07_PUB'), queue_type=kind)
        if rng.random() < 0.6:
          # a publication made RIGHT AFTER subscribe() returned (no quiescence in between, the object possibly still busy
          # with an earlier event): it is a "later publication" and must reach the chart
          immediate.append(n * 10 + 9)
          AO.ActiveFabric().publish(Event(signal='C07_PUB', payload=n * 10 + 9))
          ctx.count('publication_right_after_subscribe_returned')
      else:
        # two more objects subscribe from inside their own handlers at the same time (each in its own thread)
        for i in range(2):
          h = aosim.History()
          a = aosim.make_ao(h, name='twin%d' % i)
          a.start_at(make_state(h, 'c07_twin_%d' % i, i == 0, kind))
          twins.append((a, h))
        sub.start_at(st)
        s.quiesce()
        for a, _ in twins[:1]:
          a.post_fifo(Event(signal='DO_SUB'))
        sub.post_fifo(Event(signal='DO_SUB'))
        for a, _ in twins[1:]:
          a.post_fifo(Event(signal='DO_SUB'))
        ctx.count('concurrent_subscribes')
      s.quiesce()
      hp = aosim.History()
      pub = aosim.make_ao(hp, name='pub')
      pst = make_state(hp, 'c07_pub_state', p_spied, 'fifo')
      uids = [n * 10 + k for k in range(1, rng.randint(2, 4))]
      if p_when == 'before':
        for u in uids:
          pub.publish(Event(signal='C07_PUB', payload=u))
        pub.start_at(pst)
      elif p_when == 'after':
        pbusy = p_spied and rng.random() < 0.5
        if pbusy:
          pub.live_spy = True
          pub.register_live_spy_callback(lambda line: None)
          ctx.count('outside_call_on_busy_object_with_live_spy')
        pub.start_at(pst)
        s.quiesce()
        for u in uids:
          if pbusy:
            pub.post_fifo(Event(signal='C07_NOISE'))
          pub.publish(Event(signal='C07_PUB', payload=u))
      else:
        pub.start_at(pst)
        for u in uids:
          pub.post_fifo(Event(signal='DO_PUB', payload=u))
      s.quiesce()
    except ds.Verdict as v:
      ctx.violation('C07/' + v.kind, 'cell ended in %s: %r' % (v.kind, v.info), wit)
      return
    except Exception as ex:
      ctx.violation('C07/exception/%s' % type(ex).__name__, 'cell raised %s: %s' % (type(ex).__name__, ex), wit)
      return
    ctx.count('cells_run')
    ctx.distinct(cell if ctx.tier == 'quick' else (cell, s.signature()[:30]))
    exc = [(t.name, t.role, repr(t.exc)) for t in s.threads if t.exc is not None]
    if exc:
      ctx.violation('C07/exception-in-thread', 'a thread died: %r' % exc, wit)
      return
    wit['fabric_cleared_while_running_before_the_subscription'] = cleared
    for who, h in [('subscriber', hs)] + [('earlier subscriber %d' % i, h) for i, (_, h) in enumerate(earlier_checked)] + [('concurrent subscriber %d' % i, h) for i, (_, h) in enumerate(twins)]:
      if during and who == 'subscriber' and hs.handled.count(during[0]) > 1:
        ctx.violation('C07/publication-received-%d-times' % hs.handled.count(during[0]), 'subscriber dispatched the publication that was in flight when it subscribed %d times' % hs.handled.count(during[0]), wit)
        return
      for u in uids + (immediate if not who.startswith('concurrent') else []) + (during if who.startswith('earlier') else []):
        ctx.count('publications_checked')
        c = h.handled.count(u)
        if c != 1:
          if who == 'subscriber' and c == 0:
            mech = []
            if not s_spied:
              mech.append('subscriber-states-not-spied')
            if s_when != 'before' and others:
              mech.append('subscribe-on-running-object-after-others')
            if not p_spied:
              mech.append('publisher-states-not-spied')
            if twins and not mech:
              mech.append('concurrent-subscribe-lost')
            if cleared:
              mech.append('after-clear-of-running-fabric')
            if u in immediate:
              mech = ['published-right-after-subscribe-returned']
            key = 'C07/publication-not-received/' + ('+'.join(mech) or 'other')
          elif c == 0 and who.startswith('concurrent'):
            key = 'C07/publication-not-received/concurrent-subscribe-lost'
          elif c == 0:
            key = 'C07/publication-not-received-by-earlier-subscriber/' + ('publisher-states-not-spied' if not p_spied else 'other')
          else:
            key = 'C07/publication-received-%d-times' % c
          ctx.violation(key, '%s dispatched publication %d %d time(s) (cell %r)' % (who, u, c, wit['cell']), wit)
          return
    if n < 3:
      ctx.sample(wit)
  finally:
    z = ds.uninstall()
    if z:
      ctx.count('zombie_threads', z)
