"""C04 -- an active object dispatches every posted event exactly once, in queue order."""
from vt import detsched as ds, aosim
from vt.checks import c05

ID = 'C04'
ENGINE = 'detsched'
TECHNIQUE = 'runtime monitoring under a deterministic cooperative scheduler: offline history checkers (exactly-once, deque-model replay, per-poster order, non-overlap, lost-wakeup at quiescence)'
RULE = ('C05 scenarios (1-4 posters x 1-6 unique-id events, fifo/lifo mixed, handlers that post further events, spied/un-spied, instrumented '
        'or not; in 40% of the runs additionally 0-2 finite timed sources and 0-3 fabric publications the object subscribed to) run to quiescence under seeded random / PCT schedules; recorded: post call/return steps, the linearised operation log of '
        'the object\'s deque (logging deque subclass, atomic with each operation), dispatch enter/exit records from a harness subclass. '
        'Checked: every returned post is exactly one append (fifo) / appendleft (lifo) of that event inside its call interval; the dispatch '
        'sequence equals the popleft sequence and a replayed deque model; every posted id dispatched exactly once, none twice, none '
        'unposted; per-poster fifo order; dispatch intervals disjoint and on the object\'s thread; at quiescence the queue is empty (no '
        'lost wake-up). distinct_nontrivial = distinct context-switch sequences of runs that entered a race window')
CASES = {'quick': 1200, 'thorough': 100000}
BUDGET = {'quick': 150, 'thorough': 300}
REQUIRE = {'runs_checked': 500, 'runs_with_live_output_on': 100, 'timed_events_expected': 200, 'published_events_expected': 200, 'poster_between_token_put_and_append': 50, 'consumer_between_get_and_popleft': 50, 'events_dispatched': 3000}
ASSUME = ['queue capacity (500) is not reached', 'runs cut by the C05 step budget are attributed to C05 and excluded here']
ANNOUNCE_CASES = True


def run_case(ctx, n):
  rng = ctx.rng('case', n)
  plans, fan, nev = c05.gen_plan(rng)
  spied, instrumented = rng.random() < 0.5, rng.random() < 0.7
  before = (ctx.counters.get('poster_between_token_put_and_append', 0), ctx.counters.get('consumer_between_get_and_popleft', 0))
  extras = None
  if rng.random() < 0.4:
    extras = {'timed': [(rng.choice(['fifo', 'lifo']), rng.choice([0.01, 0.05]), rng.randint(1, 3), rng.choice([True, False])) for _ in range(rng.randint(0, 2))],
              'pubs': list(range(rng.randint(0, 3))), 'sub_kind': rng.choice(['fifo', 'lifo'])}
    ctx.count('runs_with_timed_or_published_events')
  if spied and rng.random() < 0.3:
    extras = dict(extras or {}, live=(True, rng.random() < 0.5))
    ctx.count('runs_with_live_output_on')
  result, s, hist, ao = c05.run_scenario(ctx, rng, plans, fan, nev, spied, instrumented, check=aosim.check_history, extras=extras)
  wit = {'plans': plans, 'fan': fan, 'spied': spied, 'instrumented': instrumented, 'policy': s.policy, 'p_switch': s.p_switch,
         'switch_trail_tail': s.trail[-30:]}
  if result['verdict'] is not None:
    ctx.count('runs_cut_by_c05_verdict')
    return
  ctx.count('runs_checked')
  ctx.count('events_dispatched', len(hist.dispatch))
  after = (ctx.counters.get('poster_between_token_put_and_append', 0), ctx.counters.get('consumer_between_get_and_popleft', 0))
  if after != before:
    ctx.distinct(s.signature())
  if result['thread_exceptions']:
    ctx.violation('C04/exception-in-thread', 'a thread died: %r' % result['thread_exceptions'], wit)
    return
  if extras and 'timed' in extras:
    # events from timed sources: exactly `times` dispatches each; published events: exactly one each
    import collections
    cnt = collections.Counter(d['uid'] for d in hist.dispatch if d['sig'] in ('EVT', 'C04_PUB') and isinstance(d['uid'], tuple))
    for i, (kind, period, times, deferred) in enumerate(extras['timed']):
      ctx.count('timed_events_expected', times)
      if cnt.get(('t', i), 0) != times:
        result['findings'].append(('C04/timed-event-dispatch-count', 'the event of timed source %d (times=%d, %s) was dispatched %d times' % (i, times, kind, cnt.get(('t', i), 0))))
    for k in extras['pubs']:
      ctx.count('published_events_expected')
      if cnt.get(('p', k), 0) != 1:
        result['findings'].append(('C04/published-event-dispatch-count', 'publication %d (the object subscribed %s before start) was dispatched %d times' % (k, extras['sub_kind'], cnt.get(('p', k), 0))))
  wit['extras'] = extras
  for key, what in result['findings'][:1]:
    ctx.violation(key, what, dict(wit, posts=hist.posts[:30], dispatched=[d['uid'] for d in hist.dispatch][:40]))
  if n < 2:
    ctx.sample({'plans': plans, 'fan': fan, 'dispatch_order': [d['uid'] for d in hist.dispatch], 'steps': result['steps'], 'switches': result['switches']})
