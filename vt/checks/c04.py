"""C04 -- an active object dispatches every posted event exactly once, in queue order."""
from vt import detsched as ds, aosim, osback
from vt.checks import c05

ID = 'C04'
ENGINE = 'detsched'
TECHNIQUE = 'runtime monitoring under a deterministic cooperative scheduler: offline history checkers (exactly-once, deque-model replay, per-poster order, non-overlap, lost-wakeup at quiescence)'
RULE = ('C05 scenarios (1-4 posters x 1-6 unique-id events, fifo/lifo mixed, handlers that post further events, spied/un-spied, instrumented '
        'or not; in 40% of the runs additionally 0-2 finite timed sources and 0-3 fabric publications the object subscribed to - in half of these runs the same subscription is made twice, before start_at or once more on the running object) run to quiescence under seeded random / PCT schedules; recorded: post call/return steps, the linearised operation log of '
        'the object\'s deque (logging deque subclass, atomic with each operation), dispatch enter/exit records from a harness subclass. '
        'Checked: every returned post is exactly one append (fifo) / appendleft (lifo) of that event inside its call interval; the dispatch '
        'sequence equals the popleft sequence and a replayed deque model; every posted id dispatched exactly once, none twice, none '
        'unposted; per-poster fifo order; dispatch intervals disjoint and on the object\'s thread; at quiescence the queue is empty (no '
        'lost wake-up). Every twentieth case is a second opinion on REAL threads with the real primitives (vt/osback.py: nothing substituted, switch interval 1 us, random yields at line starts of miros code): exactly-once, no phantom, steps on the object\'s thread and not overlapping, per-poster order of all-fifo runs; a run that does not drain in the wall-clock limit is inconclusive there. Every tenth case floods an object whose queue has capacity 2-4 with fifo posts from 1-3 threads while its thread runs: overflow may displace events, but what is dispatched must keep each poster\'s order, once each. distinct_nontrivial = distinct context-switch sequences of runs that entered a race window')
CASES = {'quick': 1200, 'thorough': 100000}
BUDGET = {'quick': 150, 'thorough': 300}
REQUIRE = {'runs_checked': 340, 'runs_with_live_output_on': 60, 'timed_events_expected': 200, 'published_events_expected': 200, 'poster_between_token_put_and_append': 50, 'consumer_between_get_and_popleft': 50, 'events_dispatched': 3000, 'os_backend_runs': 20, 'runs_with_the_subscription_made_twice': 42, 'overflow_runs_checked': 40, 'events_displaced_by_overflow': 100}
ASSUME = ['queue capacity (500) is not reached, except in the overflow cases (capacity 2-4), where displaced events may be missing', 'runs cut by the C05 step budget are attributed to C05 and excluded here']
ANNOUNCE_CASES = True


def os_case(ctx, n):
  """second opinion on real threads with the real primitives (vt/osback.py): posters race a started ActiveObject; only facts that
  need no wall clock are decided (exactly-once, no phantom, per-poster fifo order, steps on the object's thread and not
  overlapping); a run that does not drain within the wall-clock limit is inconclusive here, never a verdict"""
  import threading
  import miros.activeobject as AO
  import miros.hsm as H
  from miros.event import signals, Event, return_status as RS
  rng = ctx.rng('os', n)
  plans, fan, nev = c05.gen_plan(rng)
  plans = [[(k, u) for (k, u) in pl] * 1 for pl in plans]
  stamp = osback.Stamp()
  dispatch, posts = [], []
  spied = rng.random() < 0.5

  def st(chart, e):
    sig = e.signal
    if sig == signals.ENTRY_SIGNAL or sig == signals.INIT_SIGNAL or sig == signals.EXIT_SIGNAL:
      return RS.HANDLED
    if e.signal_name == 'EVT':
      for kind, uid in fan.get(e.payload, ()):
        posts.append({'poster': 'handler', 'uid': uid, 'kind': kind})
        (chart.post_fifo if kind == 'fifo' else chart.post_lifo)(Event(signal='EVT', payload=uid))
      return RS.HANDLED
    chart.temp.fun = chart.top
    return RS.SUPER
  st.__name__ = 'c04_os_state'
  state = H.spy_on(st) if spied else st

  class MonAO(AO.ActiveObject):
    def dispatch(self, e):
      rec = {'uid': e.payload, 'sig': e.signal_name, 'enter': stamp(), 'exit': None, 'thread': threading.get_ident()}
      dispatch.append(rec)
      try:
        return AO.ActiveObject.dispatch(self, e)
      finally:
        rec['exit'] = stamp()
  ao = MonAO(name='c04_os')
  if rng.random() < 0.3:
    ao.instrumented = False
  if spied and rng.random() < 0.3:
    ao.live_spy = True
    ao.register_live_spy_callback(lambda line: None)

  def poster(who, plan):
    for kind, uid in plan:
      rec = {'poster': who, 'uid': uid, 'kind': kind}
      (ao.post_fifo if kind == 'fifo' else ao.post_lifo)(Event(signal='EVT', payload=uid))
      posts.append(rec)
  expected = set(u for pl in plans for _, u in pl) | set(u for f in fan.values() for _, u in f)
  try:
    with osback.Perturb(rng.randrange(1 << 30), p_yield=rng.choice([0.05, 0.2, 0.5])) as P:
      ao.start_at(state)
      ao_ident = ao.thread.ident
      finished, excs = osback.run_threads([(poster, ('p%d' % i, pl)) for i, pl in enumerate(plans)], limit=30.0)
      drained = finished and osback.wait_for(lambda: len([d for d in dispatch if d['sig'] == 'EVT' and d['exit'] is not None]) >= len(expected) or not ao.thread.is_alive(), limit=15.0)
    ctx.count('os_backend_yields_injected', P.nyields)
    wit = {'backend': 'os threads', 'plans': plans, 'fan': fan, 'spied': spied, 'dispatched': [d['uid'] for d in dispatch][:40]}
    if excs:
      ctx.count('os_backend_runs')
      ctx.violation('C04/exception-in-thread', 'real threads: a poster raised: %r' % excs, wit)
      return
    got = [d['uid'] for d in dispatch if d['sig'] == 'EVT']
    dup = sorted(set(u for u in got if got.count(u) > 1))
    phantom = [u for u in got if u not in expected]
    if dup or phantom:
      ctx.count('os_backend_runs')
      ctx.violation('C04/dispatched-twice' if dup else 'C04/phantom-dispatch', 'real threads: events %r were dispatched more than once / events %r were never posted' % (dup, phantom), wit)
      return
    if not drained or not ao.thread.is_alive():
      if not ao.thread.is_alive() and finished:
        ctx.count('os_backend_runs')
        ctx.violation('C04/exception-in-thread', 'real threads: the thread of a never-stopped active object ended while %d posted events were not dispatched' % (len(expected) - len(set(got))), wit)
      else:
        ctx.count('os_backend_inconclusive')
      return
    ctx.count('os_backend_runs')
    ctx.count('os_backend_events_dispatched', len(got))
    off = [d['uid'] for d in dispatch if d['thread'] != ao_ident]
    if off:
      ctx.violation('C04/step-off-thread', 'real threads: events %r were dispatched off the object\'s thread' % off[:5], wit)
      return
    ds_sorted = sorted(dispatch, key=lambda d: d['enter'])
    for a, b in zip(ds_sorted, ds_sorted[1:]):
      if a['exit'] is None or a['exit'] > b['enter']:
        ctx.violation('C04/steps-overlap', 'real threads: run-to-completion steps of events %s and %s overlap' % (a['uid'], b['uid']), wit)
        return
    # per-poster order of fifo posts made by ONE poster thread when every post of the run is fifo (then the queue is a plain fifo)
    if all(k == 'fifo' for pl in plans for k, _ in pl) and not fan:
      pos = {u: i for i, u in enumerate(got)}
      for pl in plans:
        seq = [pos[u] for _, u in pl]
        if seq != sorted(seq):
          ctx.violation('C04/fifo-post-overtook-earlier-event', 'real threads: the fifo posts %r of one poster were dispatched in the order %r' % ([u for _, u in pl], sorted((u for _, u in pl), key=pos.get)), wit)
          return
  finally:
    try:
      if ao.thread is not None and ao.thread.is_alive():
        ao.stop()
    except Exception:
      pass


def overflow_order_case(ctx, n):
  """posters flood an active object whose pending-event queue is SMALL (capacity 2-4) while its thread runs: overflow may displace
  events (they are then simply never dispatched), but what IS dispatched must keep the order its queue discipline gives - here
  all posts are fifo, so the events of one poster must be dispatched in the order that poster made them - and nothing may be
  dispatched twice or out of nowhere"""
  rng = ctx.rng('overflow', n)
  cap = rng.choice([2, 3, 4])
  plans = [[('fifo', 100 * (p + 1) + k) for k in range(rng.randint(4, 10))] for p in range(rng.choice([1, 1, 2, 3]))]
  nev = sum(len(p) for p in plans)
  spied, instrumented = rng.random() < 0.5, rng.random() < 0.7
  result, s, hist, ao = c05.run_scenario(ctx, rng, plans, {}, nev, spied, instrumented, extras={'capacity': cap})
  wit = {'queue_capacity': cap, 'plans': plans, 'spied': spied, 'instrumented': instrumented, 'policy': s.policy, 'p_switch': s.p_switch, 'switch_trail_tail': s.trail[-30:]}
  if result['verdict'] is not None:
    ctx.count('runs_cut_by_c05_verdict')
    return
  ctx.count('overflow_runs_checked')
  if result['thread_exceptions']:
    ctx.violation('C04/exception-in-thread', 'a thread died: %r' % result['thread_exceptions'], wit)
    return
  got = [d['uid'] for d in hist.dispatch if d['sig'] == 'EVT']
  posted = set(u for pl in plans for _, u in pl)
  ctx.count('events_displaced_by_overflow', len(posted) - len(set(got)))
  ctx.distinct(('overflow', cap, len(plans)) + s.signature()[:40])
  wit['dispatched'] = got
  dup = sorted(set(u for u in got if got.count(u) > 1))
  phantom = [u for u in got if u not in posted]
  if dup or phantom:
    ctx.violation('C04/dispatched-twice' if dup else 'C04/phantom-dispatch', 'queue of capacity %d under a flood of posts: events %r were dispatched more than once / events %r were never posted' % (cap, dup, phantom), wit)
    return
  for pl in plans:
    mine = [u for u in got if u in set(x for _, x in pl)]
    if mine != sorted(mine):
      k = next(i for i in range(len(mine) - 1) if mine[i] > mine[i + 1])
      ctx.violation('C04/fifo-post-overtook-earlier-event', 'queue of capacity %d under a flood of fifo posts: event %d was dispatched BEFORE event %d, which the same thread had posted earlier (neither was displaced by the overflow: both were dispatched); dispatch order of that poster: %r' % (
        cap, mine[k], mine[k + 1], mine), wit)
      return
  if len(ao.locking_deque.deque) != 0:
    ctx.count('other_property_disagreements')     # events left behind at quiescence: C05's verdict


def run_case(ctx, n):
  if n % 20 == 19:
    return os_case(ctx, n)
  if n % 10 == 4:
    return overflow_order_case(ctx, n)
  rng = ctx.rng('case', n)
  plans, fan, nev = c05.gen_plan(rng)
  spied, instrumented = rng.random() < 0.5, rng.random() < 0.7
  before = (ctx.counters.get('poster_between_token_put_and_append', 0), ctx.counters.get('consumer_between_get_and_popleft', 0))
  extras = None
  if rng.random() < 0.4:
    extras = {'timed': [(rng.choice(['fifo', 'lifo']), rng.choice([0.01, 0.05]), rng.randint(1, 3), rng.choice([True, False])) for _ in range(rng.randint(0, 2))],
              'pubs': list(range(rng.randint(0, 3))), 'sub_kind': rng.choice(['fifo', 'lifo']), 'sub_again': rng.choice([None, None, 'before', 'after'])}
    if extras['pubs'] and extras['sub_again']:
      ctx.count('runs_with_the_subscription_made_twice')
    ctx.count('runs_with_timed_or_published_events')
  if spied and rng.random() < 0.3:
    extras = dict(extras or {}, live=(True, rng.random() < 0.5))
    ctx.count('runs_with_live_output_on')
  result, s, hist, ao = c05.run_scenario(ctx, rng, plans, fan, nev, spied, instrumented, check=aosim.check_history, extras=extras)
  wit = {'plans': plans, 'fan': fan, 'spied': spied, 'instrumented': instrumented, 'policy': s.policy, 'p_switch': s.p_switch,
         'switch_trail_tail': s.trail[-30:]}
  if result['verdict'] is not None:
    ctx.count('runs_cut_by_c05_verdict')
    return
  ctx.count('runs_checked')
  ctx.count('events_dispatched', len(hist.dispatch))
  after = (ctx.counters.get('poster_between_token_put_and_append', 0), ctx.counters.get('consumer_between_get_and_popleft', 0))
  if after != before:
    ctx.distinct(s.signature())
  if result['thread_exceptions']:
    ctx.violation('C04/exception-in-thread', 'a thread died: %r' % result['thread_exceptions'], wit)
    return
  if extras and 'timed' in extras:
    # events from timed sources: exactly `times` dispatches each; published events: exactly one each
    import collections
    cnt = collections.Counter(d['uid'] for d in hist.dispatch if d['sig'] in ('EVT', 'C04_PUB') and isinstance(d['uid'], tuple))
    for i, (kind, period, times, deferred) in enumerate(extras['timed']):
      ctx.count('timed_events_expected', times)
      if cnt.get(('t', i), 0) != times:
        result['findings'].append(('C04/timed-event-dispatch-count', 'the event of timed source %d (times=%d, %s) was dispatched %d times' % (i, times, kind, cnt.get(('t', i), 0))))
    for k in extras['pubs']:
      ctx.count('published_events_expected')
      if cnt.get(('p', k), 0) != 1:
        result['findings'].append(('C04/published-event-dispatch-count', 'publication %d (the object subscribed %s before start) was dispatched %d times' % (k, extras['sub_kind'], cnt.get(('p', k), 0))))
  wit['extras'] = extras
  for key, what in result['findings'][:1]:
    ctx.violation(key, what, dict(wit, posts=hist.posts[:30], dispatched=[d['uid'] for d in hist.dispatch][:40]))
  if n < 2:
    ctx.sample({'plans': plans, 'fan': fan, 'dispatch_order': [d['uid'] for d in hist.dispatch], 'steps': result['steps'], 'switches': result['switches']})
