"""C04 -- an active object dispatches every posted event exactly once, in queue order."""
from vt import detsched as ds, aosim
from vt.checks import c05

ID = 'C04'
ENGINE = 'detsched'
TECHNIQUE = 'runtime monitoring under a deterministic cooperative scheduler: offline history checkers (exactly-once, deque-model replay, per-poster order, non-overlap, lost-wakeup at quiescence)'
RULE = ('C05 scenarios (1-4 posters x 1-6 unique-id events, fifo/lifo mixed, handlers that post further events, spied/un-spied, instrumented '
        'or not) run to quiescence under seeded random / PCT schedules; recorded: post call/return steps, the linearised operation log of '
        'the object\'s deque (logging deque subclass, atomic with each operation), dispatch enter/exit records from a harness subclass. '
        'Checked: every returned post is exactly one append (fifo) / appendleft (lifo) of that event inside its call interval; the dispatch '
        'sequence equals the popleft sequence and a replayed deque model; every posted id dispatched exactly once, none twice, none '
        'unposted; per-poster fifo order; dispatch intervals disjoint and on the object\'s thread; at quiescence the queue is empty (no '
        'lost wake-up). distinct_nontrivial = distinct context-switch sequences of runs that entered a race window')
CASES = {'quick': 1200, 'thorough': 100000}
BUDGET = {'quick': 50, 'thorough': 300}
REQUIRE = {'runs_checked': 500, 'poster_between_token_put_and_append': 50, 'consumer_between_get_and_popleft': 50, 'events_dispatched': 3000}
ASSUME = ['queue capacity (500) is not reached', 'runs cut by the C05 step budget are attributed to C05 and excluded here']
ANNOUNCE_CASES = True


def run_case(ctx, n):
  rng = ctx.rng('case', n)
  plans, fan, nev = c05.gen_plan(rng)
  spied, instrumented = rng.random() < 0.5, rng.random() < 0.7
  before = (ctx.counters.get('poster_between_token_put_and_append', 0), ctx.counters.get('consumer_between_get_and_popleft', 0))
  result, s, hist, ao = c05.run_scenario(ctx, rng, plans, fan, nev, spied, instrumented, check=aosim.check_history)
  wit = {'plans': plans, 'fan': fan, 'spied': spied, 'instrumented': instrumented, 'policy': s.policy, 'p_switch': s.p_switch,
         'switch_trail_tail': s.trail[-30:]}
  if result['verdict'] is not None:
    ctx.count('runs_cut_by_c05_verdict')
    return
  ctx.count('runs_checked')
  ctx.count('events_dispatched', len(hist.dispatch))
  after = (ctx.counters.get('poster_between_token_put_and_append', 0), ctx.counters.get('consumer_between_get_and_popleft', 0))
  if after != before:
    ctx.distinct(s.signature())
  if result['thread_exceptions']:
    ctx.violation('C04/exception-in-thread', 'a thread died: %r' % result['thread_exceptions'], wit)
    return
  for key, what in result['findings'][:1]:
    ctx.violation(key, what, dict(wit, posts=hist.posts[:30], dispatched=[d['uid'] for d in hist.dispatch][:40]))
  if n < 2:
    ctx.sample({'plans': plans, 'fan': fan, 'dispatch_order': [d['uid'] for d in hist.dispatch], 'steps': result['steps'], 'switches': result['switches']})
