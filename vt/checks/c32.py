"""C32 -- stripped() makes trace comparison timestamp-insensitive."""
import datetime
import re

import miros.hsm as H
from miros.event import Event
from miros.hsm import HsmWithQueues, stripped
from vt import chartgen as cg

ID = 'C32'
ENGINE = 'chartgen+model'
TECHNIQUE = 'runtime monitoring: metamorphic oracle over real trace() output (equivalence-preserving and breaking perturbations)'
RULE = ('real trace() text of generated spied charts on HsmWithQueues (chart names None / digits-only / with brackets and spaces / long; '
        'signal names incl. spaces, brackets and digits; generated state names) produced twice under different scripted clocks; (1) '
        'stripped(trace) must equal the list "[name] e->SIG() A->B" computed from the full.trace records; (2) the two differently stamped '
        'traces, and copies with extra blank lines, spaces/tabs around lines and CRLF, must strip to equal lists; (3) traces whose record '
        'lists differ (rename, drop, duplicate, swap of different records) must strip to different lists; (4) every single line (with '
        'leading spaces) must strip to the same text as its element in the multi-line result. distinct_nontrivial = distinct (chart-name '
        'class, records, perturbation) tuples')
CASES = {'quick': 2500, 'thorough': 200000}
BUDGET = {'quick': 150, 'thorough': 300}
REQUIRE = {'traces': 2000, 'equivalent_pairs': 4166, 'different_pairs': 3122, 'single_lines': 8195}
ASSUME = ['signal names contain no line breaks', 'single-line inputs carry leading spaces only (as documented)']


class Clock(datetime.datetime):
  base = datetime.datetime(2024, 1, 1)
  step = datetime.timedelta(microseconds=1)
  t = base

  @classmethod
  def now(cls, tz=None):
    cls.t = cls.t + cls.step
    return cls.t


NAMES = [None, 'c', '12345', 'a[1]', 'my chart', 'x' * 40, '75c8c', '2024-01-01', '[]', 'chart ] [ odd']
SIGS = ['E0', 'E1', 'E2', 'sig one', 'B[2]', '42', 'e->x()', 'A->B']


def make_trace(spec, start, script, name, base, step):
  Clock.t, Clock.step = base, step
  saved = H.stdlib_datetime
  H.stdlib_datetime = Clock
  try:
    run = cg.Run(spec, spied=True)
    c = HsmWithQueues()
    c.name = name
    c.start_at(run.fns[start])
    for sn in script:
      c.post_fifo(Event(signal=sn))
      c.next_rtc()
    return c.trace(), [(t.start_state, t.signal, t.end_state) for t in c.full.trace]
  finally:
    H.stdlib_datetime = saved


def strip(text):
  with stripped(text) as s:
    return s


def perturb_equiv(rng, text):
  lines = text.split('\n')
  out = []
  for ln in lines:
    if rng.random() < 0.3:
      out.append(rng.choice(['', ' ', '\t', '   ']))
    if ln.strip():
      ln = rng.choice(['', ' ', '  ', '\t', '    ']) + ln + rng.choice(['', ' ', '\t', '  '])
    out.append(ln)
  sep = rng.choice(['\n', '\n', '\r\n'])
  return sep.join(out) + rng.choice(['', '\n', '\n\n'])


def run_case(ctx, n):
  rng = ctx.rng('case', n)
  spec = cg.gen_spec(rng, nmax=8, name_style=rng.choice(cg.NAME_STYLES), guards=False)
  # rename the user signals to awkward ones
  ren = dict(zip(spec['sigs'][:-1], rng.sample(SIGS, len(spec['sigs']) - 1)))
  spec['react'] = {'%s:%s' % (k.split(':')[0], ren[k.split(':', 1)[1]]): v for k, v in spec['react'].items()}
  spec['sigs'] = [ren[s] for s in spec['sigs'][:-1]] + ['ZZ']
  start = rng.randrange(spec['n'])
  script = cg.gen_script(rng, spec, rng.randint(1, 40))
  name = rng.choice(NAMES)
  t1, recs1 = make_trace(spec, start, script, name, datetime.datetime(2024, 1, 1), datetime.timedelta(microseconds=rng.choice([0, 1, 999999])))
  t2, recs2 = make_trace(spec, start, script, name, datetime.datetime(rng.choice([1970, 1999, 2038, 9000]), rng.randint(1, 12), rng.randint(1, 28), rng.randint(0, 23)), datetime.timedelta(seconds=rng.choice([0, 1, 3600.5])))
  ctx.count('traces', 2)
  wit = {'spec': spec, 'start': start, 'script': script, 'name': name, 'trace1': t1, 'trace2': t2}
  if recs1 != recs2:
    ctx.count('other_property_disagreements')
    return
  nm = 'None' if name is None else name
  exp = ['[%s] e->%s() %s->%s' % (nm, 'start_at' if sg is None else sg, a, b) for a, sg, b in recs1]
  ncls = 'none' if name is None else ('digits' if name.isdigit() else ('punct' if re.search(r'[\[\] ]', name) else 'plain'))
  ctx.distinct((ncls, len(recs1), 'base'))
  s1 = strip(t1)
  if len(recs1) > 1:
    if s1 != exp:
      ctx.violation('C32/stripped-differs-from-records', 'stripped(trace) = %r, records give %r' % (s1[:4], exp[:4]), wit)
      return
  else:
    # a one-record trace still has two text lines ("\n" + record)
    if s1 != exp and s1 != exp[0]:
      ctx.violation('C32/stripped-differs-from-records', 'stripped(one-record trace) = %r, record gives %r' % (s1, exp), wit)
      return
  # (2) equivalent variants
  variants = [t2] + [perturb_equiv(rng, rng.choice([t1, t2])) for _ in range(4)]
  for v in variants:
    ctx.count('equivalent_pairs')
    sv = strip(v)
    if not isinstance(sv, list):
      sv = [sv] if sv.strip() else []
    if sv != (s1 if isinstance(s1, list) else [s1]):
      ctx.violation('C32/equivalent-traces-strip-differently', 'two traces that differ only in timestamps / blank lines / surrounding whitespace strip to different lists: %r vs %r' % (sv[:3], s1[:3]), dict(wit, variant=v))
      return
    ctx.distinct((ncls, len(recs1), 'equiv'))
  # (3) breaking variants: build text from a changed record list with fresh timestamps
  lines1 = [ln for ln in t1.split('\n') if ln.strip()]
  for kind in ('drop', 'dup', 'swap', 'rename'):
    ls = list(lines1)
    if kind == 'drop':
      if len(ls) < 2:
        continue
      del ls[rng.randrange(len(ls))]
    elif kind == 'dup':
      i = rng.randrange(len(ls))
      ls.insert(i, ls[i])
    elif kind == 'swap':
      cand = [(i, j) for i in range(len(ls)) for j in range(i + 1, len(ls)) if exp[i] != exp[j]]
      if not cand:
        continue
      i, j = rng.choice(cand)
      ls[i], ls[j] = ls[j], ls[i]
    else:
      i = rng.randrange(len(ls))
      ls[i] = ls[i][:-1] + ('_' if ls[i][-1] != '_' else 'x')
    v = perturb_equiv(rng, '\n' + '\n'.join(ls) + '\n')
    sv = strip(v)
    sv = sv if isinstance(sv, list) else [sv]
    ctx.count('different_pairs')
    ctx.distinct((ncls, len(recs1), kind))
    if sv == (s1 if isinstance(s1, list) else [s1]):
      ctx.violation('C32/different-traces-strip-equal', 'a trace with a %s record strips to the same list' % kind, dict(wit, variant=v))
      return
  # (4) single lines
  for i, ln in enumerate(lines1[:30]):
    ctx.count('single_lines')
    one = strip(rng.choice(['', ' ', '   ']) + ln)
    if one != exp[i]:
      ctx.violation('C32/single-line-differs', 'stripped(single line) = %r, element of the multi-line result is %r' % (one, exp[i]), dict(wit, line=ln))
      return
  if n < 2:
    ctx.sample({'trace': t1, 'stripped': s1 if isinstance(s1, list) else [s1]})
