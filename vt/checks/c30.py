"""C30 -- singletons stay single even when first requested concurrently."""
import miros.activeobject as AO
import miros.event as EV
import miros.singleton as SG
from vt import detsched as ds, sysx, osback

ID = 'C30'
ENGINE = 'detsched'
TECHNIQUE = 'runtime monitoring under a deterministic cooperative scheduler (opcode-level yield points in miros/singleton.py): identity oracle over concurrent first requests; a few small scenarios per run are enumerated systematically (every schedule within a delay bound, vt/sysx.py)'
RULE = ('2-5 real threads make the FIRST request of a fresh SingletonDecorator over each of the five real classes (ActiveFabricSource, '
        'SignalSource, ReturnStatusSource, the fabric run event class, the live-output writer class) at the same time, and 2-3 threads '
        'construct ActiveObject() concurrently in a process-fresh state (which requests ActiveFabric, the fabric run event and the writer '
        'lazily); detsched switches threads at every bytecode boundary of SingletonDecorator.__call__ and every line of the constructors '
        '(seeded random and PCT schedules; in 30% of the runs the thread inside the constructor is held there for 0.5-3 s of virtual time by an injected delay); all returned objects must be the same object and later requests must return it too. ' +
        sysx.RULE_TEXT % (1, 2) +
        'Every twentieth case is a second opinion on REAL threads with the real primitives (vt/osback.py: nothing substituted, switch interval 1 us, random yields at line starts of miros code): 2-6 threads released from a barrier make the first request of a fresh decorator. '
        'distinct_nontrivial = distinct context-switch sequences in which >= 2 threads were inside __call__ at the same time')
CASES = {'quick': 1500, 'thorough': 100000}
BUDGET = {'quick': 150, 'thorough': 600}
REQUIRE = {'runs': 800, 'overlapping_first_requests': 200, 'active_object_constructions': 66, 'systematic_schedules': 300, 'systematic_scenarios_exhausted': 6, 'os_backend_runs': 25, 'runs_with_slow_first_construction': 150}
SYS = {'quick': (16, 1, 2500, 30.0), 'thorough': (32, 2, 100000, 150.0)}     # systematic cases, deviation bound, schedule cap, seconds cap (per scenario)
ASSUME = ['fresh SingletonDecorator objects per run (same class as the module-level ones); module-level instances created at import are not re-raced']
ANNOUNCE_CASES = True
KLASSES = ['ActiveFabricSource', 'SignalSource', 'ReturnStatusSource', 'SourceThreadEvent', 'InstrumenationWriterClass']


def run_case(ctx, n):
  if n % 20 == 19:
    return os_case(ctx, n)
  sysx.run_case(ctx, n, SYS, scenario)


def os_case(ctx, n):
  """second opinion on real threads with the real primitives (vt/osback.py): nothing substituted, interleavings perturbed"""
  rng = ctx.rng('os', n)
  kind = rng.choice(KLASSES)
  nthreads = rng.randint(2, 6)
  klass = getattr(AO, kind, None) or getattr(EV, kind)
  dec = SG.SingletonDecorator(klass)
  got = {}

  def req(i):
    got[i] = dec()
  with osback.Perturb(rng.randrange(1 << 30), p_yield=rng.choice([0.1, 0.3, 0.6])) as P:
    finished, excs = osback.run_threads([(req, (i,)) for i in range(nthreads)])
  ctx.count('os_backend_yields_injected', P.nyields)
  if not finished:
    ctx.count('os_backend_inconclusive')
    return
  ctx.count('os_backend_runs')
  wit = {'backend': 'os threads', 'kind': kind, 'threads': nthreads}
  if excs:
    ctx.violation('C30/exception-in-thread', 'real threads: a requesting thread died: %r' % excs, wit)
    return
  got[-1] = dec()
  if len(set(id(o) for o in got.values())) != 1:
    ctx.violation('C30/two-instances', 'real threads: %d distinct %s instances were handed out to %d concurrent first requests' % (len(set(id(o) for o in got.values())), kind, nthreads), wit)


def scenario(ctx, n):
  rng = ctx.rng('case', n)
  kind = 'ao' if rng.random() < 0.15 else rng.choice(KLASSES)
  nthreads = rng.randint(2, 3) if kind == 'ao' else rng.randint(2, 5)
  if getattr(ctx, 'small', False):
    nthreads = 2 + (n % 2 if ctx.tier == 'thorough' and kind != 'ao' else 0)
  pol = dict(policy='random', p_switch=rng.choice([0.1, 0.3, 0.6])) if rng.random() < 0.6 else dict(policy='pct', pct_depth=rng.choice([2, 3]), pct_len=120)
  s = ds.Sched(seed=rng.randrange(1 << 30), max_steps=200000, **pol)
  ds.install(s, op_mods=[SG], line_mods=[AO, EV], line_funcs={AO: ['__init__'], EV: ['__init__']})
  if not getattr(ctx, 'small', False) and rng.random() < 0.3:
    # a SLOW first construction: the thread that is inside the constructor is held there for 0.5-3 s of virtual time (a starved
    # thread on a loaded machine, a constructor that does I/O); every other requester has to wait that long for the same object
    s.inject = {'match': lambda me, loc: me.role in ('req', 'make') and isinstance(loc, tuple) and loc[0] == '__init__',
                'visit': rng.randint(1, 4), 'sleep': rng.choice([0.5, 1.6, 3.0])}
    ctx.count('runs_with_slow_first_construction')
  got = {}
  inside = [0]
  overlap = [False]

  def hook(sched, me, loc):
    pass
  try:
    if kind == 'ao':
      def make(i):
        a = AO.ActiveObject(name='c30_%d' % i)
        got[i] = (a.fabric, a.writer, a.fabric.fabric_task_event)
      target = make
      ctx.count('active_object_constructions')
    else:
      klass = getattr(AO, kind, None) or getattr(EV, kind)
      dec = SG.SingletonDecorator(klass)

      def req(i):
        inside[0] += 1
        if inside[0] > 1:
          overlap[0] = True
        try:
          got[i] = (dec(),)
        finally:
          inside[0] -= 1
      target = req
    try:
      ths = [ds.SThread(target=target, args=(i,)) for i in range(nthreads)]
      for t in ths:
        t.start()
      for t in ths:
        t.join()
      s.quiesce()
    except ds.Verdict as v:
      ctx.violation('C30/' + v.kind, 'concurrent first requests ended in %s: %r' % (v.kind, v.info), {'kind': kind, 'threads': nthreads})
      return
    ctx.count('runs')
    if overlap[0] or kind == 'ao':
      ctx.count('overlapping_first_requests')
      ctx.distinct(s.signature())
    exc = [(t.name, repr(t.exc)) for t in s.threads if t.exc is not None]
    wit = {'kind': kind, 'threads': nthreads, 'policy': pol, 'trail': s.trail[:40]}
    if exc:
      ctx.violation('C30/exception-in-thread', 'a requesting thread died: %r' % exc, wit)
      return
    if kind != 'ao':
      got[-1] = (dec(),)
    for slot in range(len(next(iter(got.values())))):
      objs = [v[slot] for v in got.values()]
      if any(o is not objs[0] for o in objs):
        what = kind if kind != 'ao' else ['ActiveFabric', 'InstrumentionWriter', 'FiberThreadEvent'][slot]
        ctx.violation('C30/two-instances', '%d distinct %s instances were handed out to %d concurrent first requests' % (len(set(id(o) for o in objs)), what, nthreads), wit)
        return
    if n < 2:
      ctx.sample({'kind': kind, 'threads': nthreads, 'switches': s.switches, 'trail_head': s.trail[:12]})
  finally:
    z = ds.uninstall()
    if z:
      ctx.count('zombie_threads', z)
