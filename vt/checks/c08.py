"""C08 -- fabric delivers by priority, and equal priorities in publish order."""
import collections

import miros.activeobject as AO
from miros.event import Event
from vt import detsched as ds

ID = 'C08'
ENGINE = 'detsched'
TECHNIQUE = 'runtime monitoring: stable-priority-queue conformance checker over the operation log of the fabric queues (recorded under the queue mutex) and publish call/return records, with delivery threads starved by a deterministic cooperative scheduler'
RULE = ('bursts of 3-40 unique-id publications with priorities from a small set (many ties; the sets include the default None = 1000, 0, negative, very large and FRACTIONAL numbers such as 2.25 / 2.5 / 2.75) from 1-3 publisher threads (in half of the runs a first part is published while the fabric is NOT running - before its first start or between a stop and the next start - so a backlog waits when the rest arrives) while the delivery '
        'threads are starved or interleaved by detsched (random schedules with low switch probability, PCT); the fabric queues are logging '
        'PriorityQueue subclasses whose _put/_get record under the queue\'s own mutex. For every get of item X: no item present in that '
        'queue at that moment may have a smaller priority number, or an equal priority and a publish call that RETURNED before X\'s publish '
        'call started; and the arrival order in every subscriber queue must equal the get order. The same statement is judged a second time at the client boundary alone (publish call / return steps and arrival steps in recording subscriber queues): when Y arrives right after X, no publication whose publish call had returned before X arrived (before the fabric was started, for the first arrival) and which is more urgent than Y - or as urgent and published before Y\'s publish call began - may arrive after Y (a delivery thread that takes several publications out of the fabric at once and hands them over one by one is seen here). distinct_nontrivial = distinct (burst '
        'size, publishers, multiset of priorities, max simultaneous equal-priority backlog) tuples with >= 3 equal-priority items waiting')
CASES = {'quick': 2000, 'thorough': 100000}
BUDGET = {'quick': 150, 'thorough': 300}
REQUIRE = {'bursts': 800, 'gets_checked': 10000, 'bursts_with_3_equal_waiting': 300, 'bursts_multi_publisher': 200, 'bursts_with_backlog_while_stopped': 300, 'bursts_with_zero_or_negative_priority': 165, 'boundary_pairs_checked': 100000, 'bursts_with_fractional_priorities': 157}
ASSUME = ['the fabric is running; one delivery thread per kind']
ANNOUNCE_CASES = True


def run_case(ctx, n):
  rng = ctx.rng('case', n)
  npub = rng.choice([1, 1, 2, 3])
  prios = rng.choice([[1000], [1, 1000], [1, 2, 3], [5, 5, 5, 7], [None, 1000, 10], [0, 1, None], [0, 0, 2, 1000], [-3, 0, 4], [2 ** 40, 7, None], [2.75, 2.5, 2.25, 2], [999.5, None, 1000.25, 1000.5], [0.1, 0.2, 0.15]])
  if any(isinstance(p, float) for p in prios):
    ctx.count('bursts_with_fractional_priorities')
  if any(p is not None and p <= 0 for p in prios):
    ctx.count('bursts_with_zero_or_negative_priority')
  total = rng.randint(3, 40)
  plans = [[] for _ in range(npub)]
  for u in range(1, total + 1):
    plans[rng.randrange(npub)].append((u, rng.choice(prios)))
  pol = dict(policy='random', p_switch=rng.choice([0.005, 0.02, 0.1, 0.4])) if rng.random() < 0.75 else dict(policy='pct', pct_depth=rng.choice([2, 3]), pct_len=800)
  s = ds.Sched(seed=rng.randrange(1 << 30), max_steps=3000000, **pol)
  ds.install(s, line_mods=[AO], log_deque=False)
  try:
    fabric = AO.ActiveFabric()
    arrivals = {'fifo': [], 'lifo': []}      # client boundary: (scheduler step, unique id) per event put into a subscriber queue

    class RecDeque(collections.deque):
      kind = None

      def append(self, e):
        arrivals[self.kind].append((ds.S.steps, e.payload))
        collections.deque.append(self, e)
    qf, ql = RecDeque(), RecDeque()
    qf.kind, ql.kind = 'fifo', 'lifo'
    calls = {}
    started_at = []

    def publisher(plan):
      for u, pr in plan:
        c = ds.S.steps
        if pr is None:
          fabric.publish(Event(signal='C08_SIG', payload=u))
        else:
          fabric.publish(Event(signal='C08_SIG', payload=u), priority=pr)
        calls[u] = (c, ds.S.steps, 1000 if pr is None else pr)
    try:
      fabric.subscribe(qf, Event(signal='C08_SIG'), queue_type='fifo')
      fabric.subscribe(ql, Event(signal='C08_SIG'), queue_type='lifo')
      # part of the burst is published while the fabric is not running (before the first start, or between a stop and
      # the next start): a backlog that is still waiting when later publications arrive
      backlog = []
      mode = rng.choice(['start', 'start', 'backlog-before-first-start', 'backlog-between-stop-and-start'])
      if mode != 'start' and plans[0]:
        if mode == 'backlog-between-stop-and-start':
          fabric.start()
          s.quiesce()
          fabric.stop()
        k = rng.randint(1, max(1, len(plans[0]) // 2))
        backlog, plans[0] = plans[0][:k], plans[0][k:]
        publisher(backlog)
        ctx.count('bursts_with_backlog_while_stopped')
      started_at.append(ds.S.steps)
      fabric.start()
      if npub == 1 and rng.random() < 0.5:
        publisher(plans[0])
      else:
        ths = [ds.SThread(target=publisher, args=(pl,)) for pl in plans]
        for t in ths:
          t.start()
        for t in ths:
          t.join()
      s.quiesce()
    except ds.Verdict as v:
      ctx.violation('C08/' + v.kind, 'burst ended in %s: %r' % (v.kind, v.info), {'plans': plans})
      return
    ctx.count('bursts')
    if npub > 1:
      ctx.count('bursts_multi_publisher')
    wit = {'plans': plans, 'published_while_stopped': backlog, 'mode': mode, 'policy': pol}
    exc = [(t.name, t.role, repr(t.exc)) for t in s.threads if t.exc is not None]
    if exc:
      ctx.violation('C08/exception-in-thread', 'a thread died: %r' % exc, wit)
      return
    maxeq = 0
    for qname, fq, sub in (('fifo', fabric.fifo_fabric_queue, qf), ('lifo', fabric.lifo_fabric_queue, ql)):
      present = []
      gets = []
      for (op, qid, item, step) in ds.PQLOG:
        if qid != id(fq) or item.event.signal_name != 'C08_SIG':
          continue          # (stop() wakes the delivery threads with an item of its own)
        u = item.event.payload
        if op == 'put':
          present.append(item)
          byp = collections.Counter(i.priority for i in present)
          maxeq = max(maxeq, max(byp.values()))
        else:
          ctx.count('gets_checked')
          present = [x for x in present if x is not item]
          gets.append(u)
          cx = calls.get(u)
          # priorities as REQUESTED by the publisher (what the fabric wrote into its own record is not trusted);
          # a publication whose publish call is still running has no record yet: the fabric's record is used then
          px = cx[2] if cx else item.priority
          for y in present:
            cy = calls.get(y.event.payload)
            py = cy[2] if cy else y.priority
            if py < px:
              ctx.violation('C08/lower-priority-delivered-first', '%s fabric queue: publication %d (published with priority %s) was taken while publication %d (published with priority %s) was waiting' % (qname, u, px, y.event.payload, py), wit)
              return
            if py == px and cx and cy and cy[1] < cx[0]:
              ctx.violation('C08/equal-priority-out-of-publish-order', '%s fabric queue: publication %d was taken before publication %d of the same priority %s, although the publish call of %d had returned (step %d) before the publish call of %d started (step %d)' % (
                qname, u, y.event.payload, px, y.event.payload, cy[1], u, cx[0]), dict(wit, get_order=gets))
              return
      arrived = [e.payload for e in sub]
      if arrived != gets:
        ctx.violation('C08/arrival-order-differs-from-delivery-order', '%s subscriber received %r, the delivery thread took %r' % (qname, arrived[:15], gets[:15]), wit)
        return
      if sorted(arrived) != sorted(calls):
        ctx.violation('C08/publication-lost-or-duplicated', '%s subscriber received %d events for %d publications' % (qname, len(arrived), len(calls)), wit)
        return
    # the same statement judged at the client boundary only (publish call / return steps, arrival steps in the subscriber
    # queues): a delivery thread fetches its next publication after it has handed over the previous one, so when Y arrives
    # right after X, every publication H whose publish call had RETURNED before X arrived (before the fabric was started, for
    # the first arrival) was waiting in the fabric when Y was chosen; H more urgent than Y, or as urgent and published before
    # Y's publish call began, must then have arrived before Y - however many publications the thread holds in its hands
    for qname in ('fifo', 'lifo'):
      arr = arrivals[qname]
      pos = {u: i for i, (_, u) in enumerate(arr)}
      for i, (step_y, y) in enumerate(arr):
        cy = calls.get(y)
        if cy is None:
          continue
        t_prev = arr[i - 1][0] if i else started_at[-1]
        for h, ch in calls.items():
          if h == y or ch[1] >= t_prev or pos.get(h, -1) < i:
            continue
          ctx.count('boundary_pairs_checked')
          if ch[2] < cy[2]:
            ctx.violation('C08/lower-priority-delivered-first', '%s subscriber: publication %d (priority %s) arrived (step %d) before publication %d (priority %s), whose publish call had returned (step %d) before the previous arrival (step %d) - it was waiting in the fabric when %d was chosen' % (
              qname, y, cy[2], step_y, h, ch[2], ch[1], t_prev, y), dict(wit, arrival_order=[u for _, u in arr]))
            return
          if ch[2] == cy[2] and ch[1] < cy[0]:
            ctx.violation('C08/equal-priority-out-of-publish-order', '%s subscriber: publication %d arrived before publication %d of the same priority %s, although the publish call of %d had returned (step %d) before the publish call of %d started (step %d)' % (
              qname, y, h, cy[2], h, ch[1], y, cy[0]), dict(wit, arrival_order=[u for _, u in arr]))
            return
    ctx.maxc('max_equal_priority_backlog', maxeq)
    if maxeq >= 3:
      ctx.count('bursts_with_3_equal_waiting')
      ctx.distinct((total, npub, tuple(sorted(str(p) for pl in plans for _, p in pl)), maxeq))
    if n < 3:
      ctx.sample(dict(wit, fifo_arrival=[e.payload for e in qf]))
  finally:
    z = ds.uninstall()
    if z:
      ctx.count('zombie_threads', z)
