"""C22 -- is_in and child_state answer from the active state path and change nothing."""
from vt import chartgen as cg, hosts

ID = 'C22'
ENGINE = 'chartgen+model'
RULE = ('generated charts on plain, instrumented, queued and active-object hosts (spied or not): between steps is_in(X) is asked for every '
        'state X and child_state(P) for every state P, and for the chart\'s own top (chart.top, a fresh bound-method object on every access); is_in must be true exactly for the current state and its ancestors in the spec '
        'tree, child_state(P) must return the child of P on the active path (P itself when current) and must fail when P is not on the '
        'path; a TWIN chart driven with the same script but never queried must produce the same ground-truth logs, rest states, spy and '
        'trace (so the queries changed nothing). A quarter of the charts have DIFFERENT states that share one function name (answers are about handlers, not names; child_state answers are compared by handler identity). distinct_nontrivial = distinct (host config, current depth, query kind, answer) tuples')
CASES = {'quick': 1500, 'thorough': 100000}
BUDGET = {'quick': 150, 'thorough': 300}
REQUIRE = {'is_in_queries': 15149, 'child_state_queries': 15149, 'child_state_off_path': 2000, 'twin_comparisons': 500, 'queries_about_top': 2000, 'charts_with_states_sharing_a_name': 92}
ASSUME = ['queries are issued between steps only (the statement quantifies there); on active objects while the object is idle']
CFGS = [{'host': 'plain', 'spied': False}, {'host': 'plain', 'spied': True}, {'host': 'instr', 'spied': True},
        {'host': 'queued', 'spied': True, 'instrumented': True}, {'host': 'queued', 'spied': False, 'instrumented': False},
        {'host': 'queued', 'spied': True, 'instrumented': False},
        {'host': 'ao', 'spied': True, 'instrumented': True, 'named': True}, {'host': 'ao', 'spied': False, 'instrumented': True, 'named': True},
        {'host': 'queued', 'spied': False, 'deco': 'wraps'}]


def run_case(ctx, n):
  rng = ctx.rng('case', n)
  spec = cg.gen_spec(rng, nmax=rng.choice([5, 9, 14]), shape=rng.choice([None, 'chain', 'two']))
  shared = rng.random() < 0.25 and spec['n'] >= 3
  if shared:
    # DIFFERENT states that share a function name (closures from one builder, an 'idle' substate per mode ...): the queries are
    # about handlers, not about names
    k = rng.randint(1, max(1, spec['n'] // 2))
    spec['names'] = ['same_name_%d' % (i % k) for i in range(spec['n'])]
    ctx.count('charts_with_states_sharing_a_name')
  start = rng.randrange(spec['n'])
  script = cg.gen_script(rng, spec, rng.randint(3, 15))
  cfg = rng.choice(CFGS)
  name = hosts.cfg_name(cfg)
  N = spec['n']
  qsteps = [k for k in range(-1, len(script)) if rng.random() < 0.6] or [-1]
  queries = {}
  for k in qsteps:
    qs = [('is_in', i) for i in range(N)] + [('child_state', i) for i in range(N)] + [('is_in', 'top'), ('child_state', 'top')]
    rng.shuffle(qs)
    queries[k] = qs
  try:
    res = hosts.run_config(spec, start, script, cfg, queries=queries)
    twin = hosts.run_config(spec, start, script, cfg)
  except hosts.Inconclusive:
    ctx.count('inconclusive_runs')
    return
  wit = {'spec': spec, 'start': start, 'script': script, 'config': cfg}
  if res.error or twin.error:
    if bool(res.error) != bool(twin.error):
      ctx.violation('C22/queries-change-behaviour', 'queried chart error %r, unqueried twin error %r' % (res.error, twin.error), wit)
    else:
      ctx.count('other_property_disagreements')
    return
  # model positions
  m = cg.Model(spec)
  m.start(start)
  cur_at = {-1: m.cur}
  for k, sn in enumerate(script):
    m.dispatch(sn)
    cur_at[k] = m.cur
  names = spec['names']
  for qi, (k, q, status, val) in enumerate(res.queries):
    cur = cur_at[k]
    path = cg.anc(spec, cur)          # cur, parent, ...
    x = q[1]
    if x == 'top':
      # top encloses every state: is_in(top) is always true, child_state(top) is the outermost state of the active path
      ctx.count('queries_about_top')
      exp = True if q[0] == 'is_in' else names[path[-1]]
      if status != 'ok' or val != exp or (q[0] == 'is_in' and val is not True):
        ctx.violation('C22/%s-answer' % q[0].replace('_', '-'), '%s(chart.top) with current state %s answered %s/%r, expected %r' % (q[0], names[cur], status, val, exp), dict(wit, after_step=k))
        return
      continue
    if q[0] == 'is_in':
      ctx.count('is_in_queries')
      exp = x in path
      ctx.distinct((name, len(path), 'is_in', exp))
      if status != 'ok' or val is not exp:
        ctx.violation('C22/is-in-answer', 'is_in(%s) with current state %s answered %s/%r, expected %r' % (names[x], names[cur], status, val, exp), dict(wit, after_step=k))
        return
    else:
      ctx.count('child_state_queries')
      if x in path:
        i = path.index(x)
        exp = names[cur] if i == 0 else names[path[i - 1]]
        ctx.distinct((name, len(path), 'child', i))
        exp_i = cur if i == 0 else path[i - 1]
        if status != 'ok' or val != exp or res.query_answer_index.get(qi) != exp_i:
          ctx.violation('C22/child-state-answer', 'child_state(%s) with current state %s answered %s/%r (the handler of state number %r), expected %s (state number %d)' % (
            names[x], names[cur], status, val, res.query_answer_index.get(qi), exp, exp_i), dict(wit, after_step=k))
          return
      else:
        ctx.count('child_state_off_path')
        ctx.distinct((name, len(path), 'child-off-path'))
        if status != 'raise':
          ctx.violation('C22/child-state-off-path-does-not-fail', 'child_state(%s) with current state %s returned %r instead of failing' % (names[x], names[cur], val), dict(wit, after_step=k))
          return
  ctx.count('twin_comparisons')
  if res.start_log != twin.start_log or res.step_logs != twin.step_logs or res.rest != twin.rest:
    k = next((j for j in range(len(script)) if res.step_logs[j] != twin.step_logs[j] or res.rest[j + 1] != twin.rest[j + 1]), None)
    ctx.violation('C22/queries-change-behaviour', 'after queries the chart behaves differently from its unqueried twin (first differing step %s)' % k, dict(wit, failing_step=k))
    return
  if res.spy_full != twin.spy_full or res.trace_records != twin.trace_records or res.spy_rtc != twin.spy_rtc:
    ctx.violation('C22/queries-change-instrumentation', 'after queries spy/trace differ from the unqueried twin', dict(wit, spy_tail=(res.spy_full or [])[-8:], twin_tail=(twin.spy_full or [])[-8:]))
  if n < 2:
    ctx.sample({'spec': spec, 'start': start, 'script': script, 'config': cfg, 'queries_after_steps': qsteps})
