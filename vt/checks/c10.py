"""C10 -- timed posts fire the requested number of times at the requested period."""
from vt import detsched as ds, aosim, timersim

ID = 'C10'
ENGINE = 'detsched'
TECHNIQUE = 'runtime monitoring under a deterministic cooperative scheduler with a virtual clock: the linearised queue-operation log is stamped with virtual time and compared with the ideal posting instants'
RULE = ('a started ActiveObject with 1-4 concurrent timed sources (post_fifo/post_lifo with period in {0.01,0.05,0.1,1,2.5} and, for finite sources, also 0, times 0..6 (a quarter of the calls pass period, times and deferred BY POSITION in the documented order) - for times 0 in most cases with the repeat count LEFT OUT or passed as None, the documented heart-beat form - (a few sources: 257-300 postings, period 0 or 1 ms), deferred '
        'True/False/default, started at different virtual instants; in a fifth of the runs armed BEFORE start_at, the object being started up to 1.3 s later), real timer threads run by detsched, time.sleep replaced by a virtual '
        'clock. Instantaneous-computation runs (clock advances only when nothing is runnable): every posting instant must equal t0 + k*period '
        '(k from 1 if deferred else 0), the count at a horizon not on a period boundary must equal min(times, instants before the horizon) '
        '(times=0: all instants), fifo sources must append, lifo sources appendleft. Early-advance runs (clock may jump while threads are '
        'runnable; finite sources only, run to quiescence): count == times, correct end, k-th posting not before its ideal instant. '
        'distinct_nontrivial = distinct (time model, sorted source parameters) tuples')
CASES = {'quick': 1500, 'thorough': 60000}
BUDGET = {'quick': 150, 'thorough': 300}
REQUIRE = {'runs': 600, 'postings_checked': 3000, 'sources_nondeferred': 200, 'sources_infinite': 100, 'sources_lifo': 200, 'early_advance_runs': 100, 'sources_with_zero_period': 100, 'sources_with_large_repeat_count': 15, 'runs_with_sources_armed_before_start_at': 77}
ASSUME = ['no cancellation or stop in these runs (C11, C12)', 'virtual time: wall-clock drift of real sleeps is outside the statement']
ANNOUNCE_CASES = True


def run_case(ctx, n):
  rng = ctx.rng('case', n)
  early = rng.random() < 0.25
  sources = timersim.gen_sources(rng, allow_infinite=not early, zero_period=True)
  horizon = rng.choice([0.3777, 1.2345, 3.7789, 7.9133, 13.3337])
  pol = aosim.policy_for(rng, est_len=1500, fair_suffix=False)
  s = ds.Sched(seed=rng.randrange(1 << 30), max_steps=3000000, p_time=0.05 if early else 0.0, horizon=1e9, **pol)
  aosim.install(s)
  run = timersim.TimerRun()
  try:
    ao = aosim.make_ao(run.hist, instrumented=rng.random() < 0.5)
    st = timersim.make_state(run, [], spied=rng.random() < 0.5)
    armed_before_start = (not early) and rng.random() < 0.2
    try:
      if not armed_before_start:
        ao.start_at(st)
      for src in sources:
        if src['start_delay']:
          ds.STime.sleep(src['start_delay'])
        timersim.start_source(ao, run, src)
      if armed_before_start:
        # the timed sources were armed BEFORE start_at (posting before the start is supported: the postings queue up) and the
        # object is started some time later, after the first postings of some of them are due
        ctx.count('runs_with_sources_armed_before_start_at')
        ds.STime.sleep(rng.choice([0.0, 0.03, 0.12, 1.3]))
        ao.start_at(st)
      if early:
        s.quiesce()
        horizon = 1e18
      else:
        if s.clock >= horizon - 1e-6:
          horizon = s.clock + 0.0777
        ds.STime.sleep(horizon - s.clock)
    except ds.Verdict as v:
      ctx.violation('C10/' + v.kind, 'timed sources ended in %s: %r' % (v.kind, v.info), {'sources': [dict((k, v2) for k, v2 in x.items() if k != 'event') for x in sources]})
      return
    now = s.clock
    ctx.count('runs')
    if early:
      ctx.count('early_advance_runs')
    wsrc = [dict((k, v) for k, v in x.items() if k != 'event') for x in sources]
    ctx.distinct((early, tuple(sorted((x['period'], x['times'], str(x['deferred']), x['kind']) for x in wsrc))))
    wit = {'sources': wsrc, 'horizon': horizon, 'early_advance': early, 'policy': pol}
    if run.raised:
      ctx.violation('C10/post-raises', 'timed post raised %r' % run.raised, wit)
      return
    exc = [(t.name, t.role, repr(t.exc)) for t in s.threads if t.exc is not None]
    if exc:
      ctx.violation('C10/exception-in-thread', 'a thread died: %r' % exc, wit)
      return
    posts = timersim.postings(ao)
    for src in sources:
      i = src['i']
      mine = [p for p in posts if p[0] == i]
      ideal = timersim.expected_instants(src, run.t0[i], now if not early else 1e9 if src['times'] else now)
      if src['deferred'] is False:
        ctx.count('sources_nondeferred')
      if src['times'] == 0:
        ctx.count('sources_infinite')
      if src['kind'] == 'lifo':
        ctx.count('sources_lifo')
      if src['period'] == 0:
        ctx.count('sources_with_zero_period')
      if src['times'] > 256:
        ctx.count('sources_with_large_repeat_count')
      want_op = 'append' if src['kind'] == 'fifo' else 'appendleft'
      wrong = [p for p in mine if p[1] != want_op]
      if wrong:
        ctx.violation('C10/wrong-end', 'source %d (%s) posted with %s' % (i, src['kind'], wrong[0][1]), wit)
        return
      ctx.count('postings_checked', len(mine))
      got_t = [p[3] for p in mine]
      if not early:
        if len(got_t) != len(ideal):
          ctx.violation('C10/count-differs', 'source %d (period %s times %s deferred %s started at %s): %d postings by t=%s, expected %d (instants %r vs %r)' % (
            i, src['period'], src['times'], src['deferred'], run.t0[i], len(got_t), now, len(ideal), got_t[:8], ideal[:8]), wit)
          return
        for k, (g, e) in enumerate(zip(got_t, ideal)):
          if abs(g - e) > 1e-9 * (k + 2):
            ctx.violation('C10/instant-differs', 'source %d posting %d at virtual time %r, expected %r' % (i, k, g, e), wit)
            return
      else:
        if len(got_t) != src['times']:
          ctx.violation('C10/count-differs', 'source %d (times %d): %d postings at quiescence' % (i, src['times'], len(got_t)), wit)
          return
        for k, (g, e) in enumerate(zip(got_t, ideal)):
          if g < e - 1e-9 * (k + 2):
            ctx.violation('C10/posting-too-early', 'source %d posting %d at %r, not allowed before %r' % (i, k, g, e), wit)
            return
    if n < 3:
      ctx.sample({'sources': wsrc, 'horizon': horizon, 'postings': [(p[0], p[1], round(p[3], 6)) for p in posts[:20]]})
  finally:
    z = ds.uninstall()
    if z:
      ctx.count('zombie_threads', z)
