"""C09 -- lifo subscriptions put events at the front of an active object's queue."""
import collections

import miros.activeobject as AO
import miros.hsm as H
from miros.event import signals, Event, return_status as RS
from vt import detsched as ds, aosim

ID = 'C09'
ENGINE = 'detsched'
TECHNIQUE = 'runtime monitoring under a deterministic cooperative scheduler: the object\'s thread is held inside a handler by a cooperative gate while events are posted and published; position oracle over the linearised deque log and the resulting dispatch order'
RULE = ('1-3 started ActiveObjects (a third of them with instrumentation switched off), each subscribed to a signal with queue_type lifo, fifo, the default, BOTH ways one call after the other, or the SAME way twice (before start_at or after it), their '
        'threads held inside a handler by a gate; 0-5 pending events are posted (fifo), then a burst of 1-4 unique-id publications of the '
        'subscribed signal is made and the fabric left to deliver (detsched random/PCT); the gate opens. In half of the runs a further '
        'thread posts fifo events to every object while the fabric delivers. The dispatch order after the gate must be: lifo subscriber - '
        'publications newest first, then the pending events, then the concurrent posts; fifo/default subscriber - pending events first, then '
        'publications in publish order and concurrent posts in post order (the queue operations used are not prescribed). Every eighth case delivers one publication to an object whose queue (capacity 3-6) is exactly full: lifo - handled first afterwards, fifo - handled last. distinct_nontrivial = distinct (objects, kinds, pending, burst, subscribe-before-'
        'start) tuples x schedule')
CASES = {'quick': 1200, 'thorough': 40000}
BUDGET = {'quick': 150, 'thorough': 300}
REQUIRE = {'runs': 350, 'lifo_deliveries': 500, 'fifo_deliveries': 500, 'lifo_with_pending_events': 200, 'runs_with_concurrent_poster': 200, 'objects_subscribed_both_ways': 150, 'deliveries_to_a_full_queue': 50, 'objects_subscribed_twice_the_same_way': 100, 'uninstrumented_subscribers': 248}
ASSUME = ['subscriptions of active objects (the statement); plain-deque subscribers keep the repository\'s pinned append behaviour']
ANNOUNCE_CASES = True


def make_state(hist, gate, name):
  def st(chart, e):
    sig = e.signal
    if sig == signals.ENTRY_SIGNAL or sig == signals.INIT_SIGNAL or sig == signals.EXIT_SIGNAL:
      return RS.HANDLED
    if e.signal_name == 'GATE':
      ds.S.wait_until(lambda: gate[0], 'gate')
      return RS.HANDLED
    if e.signal_name in ('EVT', 'C09_PUB'):
      hist.handled.append((e.signal_name, e.payload))
      return RS.HANDLED
    chart.temp.fun = chart.top
    return RS.SUPER
  st.__name__ = name
  return H.spy_on(st)


def full_queue_case(ctx, n):
  """delivery to an object whose pending-event queue is exactly FULL (a small capacity, the object held in a handler): a lifo
  delivery must still be the first event handled afterwards, a fifo delivery the last one (which pending event gives way is
  not prescribed)"""
  rng = ctx.rng('full', n)
  cap = rng.choice([3, 4, 6])
  kind = rng.choice(['lifo', 'lifo', 'fifo'])
  pol = dict(policy='random', p_switch=rng.choice([0.02, 0.1, 0.3])) if rng.random() < 0.7 else dict(policy='pct', pct_depth=2, pct_len=800)
  s = ds.Sched(seed=rng.randrange(1 << 30), max_steps=3000000, **pol)
  aosim.install(s)
  try:
    gate = [False]
    hist = aosim.History()
    wit = {'full_queue': True, 'capacity': cap, 'kind': kind, 'policy': pol}
    try:
      saved = H.HsmWithQueues.QUEUE_SIZE
      H.HsmWithQueues.QUEUE_SIZE = cap
      try:
        a = aosim.make_ao(hist, name='c09_full')
      finally:
        H.HsmWithQueues.QUEUE_SIZE = saved
      a.start_at(make_state(hist, gate, 'c09_full_state'))
      a.subscribe(Event(signal='C09_PUB'), queue_type=kind)
      s.quiesce()
      a.post_fifo(Event(signal='GATE'))
      s.quiesce()
      pend = [('EVT', u) for u in range(1, cap + 1)]
      for _, u in pend:
        a.post_fifo(Event(signal='EVT', payload=u))
      AO.ActiveFabric().publish(Event(signal='C09_PUB', payload=99))
      s.quiesce()
      gate[0] = True
      s.quiesce()
    except ds.Verdict as v:
      ctx.violation('C09/' + v.kind, 'full-queue scenario ended in %s: %r' % (v.kind, v.info), wit)
      return
    ctx.count('deliveries_to_a_full_queue')
    ctx.distinct(('full', cap, kind, s.signature()[:20]))
    got = list(hist.handled)
    if ('C09_PUB', 99) not in got or len(got) != cap:
      ctx.count('other_property_disagreements')        # what a full queue keeps is C16's business
      return
    pos = got.index(('C09_PUB', 99))
    want = 0 if kind == 'lifo' else cap - 1
    if pos != want:
      ctx.violation('C09/%s-delivery-at-wrong-end' % kind, 'object subscribed %s, its queue (capacity %d) was full when the publication was delivered: it was handled at position %d of %d after the gate (%r), expected %s' % (
        kind, cap, pos, cap, got, 'first' if kind == 'lifo' else 'last'), wit)
  finally:
    z = ds.uninstall()
    if z:
      ctx.count('zombie_threads', z)


def run_case(ctx, n):
  if n % 8 == 7:
    return full_queue_case(ctx, n)
  rng = ctx.rng('case', n)
  nobj = rng.randint(1, 3)
  cfg = [{'kind': rng.choice(['lifo', 'lifo', 'fifo', None, 'fifo+lifo', 'lifo+fifo', 'lifo+lifo', 'fifo+fifo']), 'before_start': rng.random() < 0.5, 'pending': rng.randint(0, 5),
          'second_before_start': rng.random() < 0.3, 'instrumented': rng.random() < 0.65} for _ in range(nobj)]
  burst = rng.randint(1, 4)
  pol = dict(policy='random', p_switch=rng.choice([0.02, 0.1, 0.3])) if rng.random() < 0.7 else dict(policy='pct', pct_depth=rng.choice([2, 3]), pct_len=1500)
  s = ds.Sched(seed=rng.randrange(1 << 30), max_steps=3000000, **pol)
  aosim.install(s)
  try:
    gate = [False]
    objs = []
    wit = {'objects': cfg, 'burst': burst, 'policy': pol}
    try:
      for i, c in enumerate(cfg):
        hist = aosim.History()
        a = aosim.make_ao(hist, name='c09_%d' % i, instrumented=c['instrumented'])
        if not c['instrumented']:
          ctx.count('uninstrumented_subscribers')
        st = make_state(hist, gate, 'c09_state_%d' % i)
        # 'fifo+lifo' / 'lifo+fifo': the same object subscribes to the signal in BOTH ways, one call after the other
        kinds = c['kind'].split('+') if c['kind'] else [None]
        when = [c['before_start']] + [c['before_start'] and c['second_before_start']] * (len(kinds) - 1)
        for k, early in zip(kinds, when):
          if early:
            a.subscribe(Event(signal='C09_PUB'), queue_type=k) if k else a.subscribe(Event(signal='C09_PUB'))
        a.start_at(st)
        for k, early in zip(kinds, when):
          if not early:
            a.subscribe(Event(signal='C09_PUB'), queue_type=k) if k else a.subscribe(Event(signal='C09_PUB'))
        objs.append((a, hist))
      s.quiesce()
      for (a, hist) in objs:
        a.post_fifo(Event(signal='GATE'))
      s.quiesce()             # every object is now held inside its GATE handler
      uid = 0
      pend = []
      for i, (a, hist) in enumerate(objs):
        mine = []
        for _ in range(cfg[i]['pending']):
          uid += 1
          a.post_fifo(Event(signal='EVT', payload=uid))
          mine.append(('EVT', uid))
        pend.append(mine)
      marks = [len(aosim.deque_ops(a)) for a, _ in objs]
      pubs = []
      # in part of the runs another thread posts (fifo) to every object WHILE the fabric delivers
      xs = [[] for _ in objs]
      posters = []
      if rng.random() < 0.5:
        ctx.count('runs_with_concurrent_poster')
        for i, (a, hist) in enumerate(objs):
          for _ in range(rng.randint(1, 3)):
            uid += 1
            xs[i].append(('EVT', uid))

          def post_xs(a=a, mine=xs[i]):
            for _, u in mine:
              a.post_fifo(Event(signal='EVT', payload=u))
          posters.append(ds.SThread(target=post_xs))
        for t in posters:
          t.start()
      for _ in range(burst):
        uid += 1
        AO.ActiveFabric().publish(Event(signal='C09_PUB', payload=uid))
        pubs.append(('C09_PUB', uid))
      for t in posters:
        t.join()
      s.quiesce()             # fabric delivered, objects still gated
      gate[0] = True
      s.quiesce()
    except ds.Verdict as v:
      ctx.violation('C09/' + v.kind, 'scenario ended in %s: %r' % (v.kind, v.info), wit)
      return
    ctx.count('runs')
    ctx.distinct((nobj, tuple((c['kind'], c['before_start'], c['pending']) for c in cfg), burst, s.signature()[:30]))
    exc = [(t.name, t.role, repr(t.exc)) for t in s.threads if t.exc is not None]
    if exc:
      ctx.violation('C09/exception-in-thread', 'a thread died: %r' % exc, wit)
      return
    for i, (a, hist) in enumerate(objs):
      kind = cfg[i]['kind'] or 'fifo'
      if kind in ('lifo+lifo', 'fifo+fifo'):
        # the same subscription made twice (a state that subscribes in its entry action and is entered again): one delivery
        ctx.count('objects_subscribed_twice_the_same_way')
        kind = kind.split('+')[0]
      ops = aosim.deque_ops(a)[marks[i]:]
      deliveries = [(op, item.payload) for (step, clock, who, did, op, item, ln) in ops if op in ('append', 'appendleft') and getattr(item, 'signal_name', None) == 'C09_PUB']
      if '+' in kind:
        # subscribed both ways: every publication arrives once at the front (lifo) and once at the back (fifo)
        ctx.count('objects_subscribed_both_ways')
        got = [h for h in hist.handled]
        k = len(pubs)
        rest = got[k + len(pend[i]):]
        ok = (got[:k] == list(reversed(pubs)) and got[k:k + len(pend[i])] == pend[i] and [x for x in rest if x[0] == 'C09_PUB'] == pubs
              and [x for x in rest if x[0] == 'EVT'] == xs[i] and len(rest) == len(pubs) + len(xs[i]))
        if not ok:
          ctx.violation('C09/both-kinds-delivery-differs', 'object %d subscribed to the signal both ways (%s; first %s start_at, second %s), %d pending events: dispatch order after the gate %r, expected the publications newest first %r, then the pending events %r, then the publications again in publish order (interleaved with the concurrent posts %r)' % (
            i, kind, 'before' if cfg[i]['before_start'] else 'after', 'before' if (cfg[i]['before_start'] and cfg[i]['second_before_start']) else 'after', len(pend[i]), got, list(reversed(pubs)), pend[i], xs[i]), wit)
          return
        ctx.count('lifo_deliveries', k)
        ctx.count('fifo_deliveries', k)
        continue
      if sorted(u for _, u in deliveries) != sorted(u for _, u in pubs):
        ctx.count('other_property_disagreements')     # delivery itself is C06/C07's business
        continue
      ctx.count('%s_deliveries' % kind, len(deliveries))
      if kind == 'lifo' and cfg[i]['pending']:
        ctx.count('lifo_with_pending_events')
      got = [h for h in hist.handled]
      # behavioural oracle (the queue operations used are not prescribed): the dispatch order after the gate
      if kind == 'lifo':
        # every delivery went to the front: publications newest first, then the pending events, then concurrent fifo posts
        expected = list(reversed(pubs)) + pend[i] + xs[i]
        ok = got == expected
      else:
        # fifo: pending events first; publications in publish order and concurrent posts in post order behind them
        rest = got[len(pend[i]):]
        ok = (got[:len(pend[i])] == pend[i] and [x for x in rest if x[0] == 'C09_PUB'] == pubs and [x for x in rest if x[0] == 'EVT'] == xs[i]
              and len(rest) == len(pubs) + len(xs[i]))
        expected = pend[i] + ['<publications %r and concurrent posts %r, each in order>' % (pubs, xs[i])]
      if not ok:
        ctx.violation('C09/%s-delivery-at-wrong-end' % kind,
                      'object %d subscribed %s (%s start_at), %d pending events, concurrent fifo posts %r: dispatch order after the gate %r, expected %r (queue operations seen for the deliveries: %r)' % (
                        i, kind, 'before' if cfg[i]['before_start'] else 'after', len(pend[i]), xs[i], got, expected, [d[0] for d in deliveries]), wit)
        return
    if n < 3:
      ctx.sample(dict(wit, dispatch_orders=[h.handled for _, h in objs]))
  finally:
    z = ds.uninstall()
    if z:
      ctx.count('zombie_threads', z)
