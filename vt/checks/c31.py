"""C31 -- a rejected timed post never fires."""
import miros.activeobject as AO
from miros.event import Event
from vt import detsched as ds, aosim, timersim

ID = 'C31'
ENGINE = 'detsched'
TECHNIQUE = 'runtime monitoring under a deterministic cooperative scheduler with a virtual clock: queue-operation log checked for any posting by the rejected source; tracked sources checked against their ideal schedule'
RULE = ('an ActiveObject subclass with a small tracked-source capacity (QUEUE_SIZE 2-4; capacity 500 through the public API in the thorough '
        'tier) is filled with timed sources (long and short periods), then a further timed post is made (fifo/lifo, deferred or not, short '
        'period - also period 0 -, any repeat count, from outside or from a handler): it must raise ActiveObjectOutOfPostedEventResources, its event must never be appended to the '
        'queue under any interleaving of the rejected source\'s thread with the caller (random / PCT schedules, run past several periods), and '
        'the sources tracked before must keep their ideal posting schedule. Every fourth case leaves exactly ONE free slot and lets 2-3 threads arm a timed post at once: exactly one is accepted, the others are refused and never fire, and every source tracked before is still tracked. distinct_nontrivial = distinct (capacity, rejected-source '
        'parameters, inside/outside, context-switch sequence prefix) tuples')
CASES = {'quick': 1000, 'thorough': 50000}
BUDGET = {'quick': 150, 'thorough': 300}
REQUIRE = {'runs': 250, 'rejected_nondeferred': 100, 'rejected_deferred': 100, 'rejected_from_handler': 50, 'concurrent_runs': 83, 'rejected_with_zero_period': 100}
ASSUME = ['instantaneous-computation time model']
ANNOUNCE_CASES = True


def concurrent_case(ctx, n):
  """ONE free tracking slot and 2-3 threads arming a timed post at once: exactly one may be accepted, the others must be refused
  and never fire, and every source tracked before must still be tracked (and keep its schedule)"""
  rng = ctx.rng('conc', n)
  cap = rng.randint(2, 4)
  tracked = [{'i': i, 'sig': rng.choice(['TICK_A', 'TICK_B']), 'kind': rng.choice(['fifo', 'lifo']), 'period': rng.choice([0.05, 100.0]),
              'times': 0, 'deferred': rng.choice([True, False, None]), 'start_delay': 0.0} for i in range(cap - 1)]
  racers = [{'i': cap - 1 + k, 'sig': 'TICK_R%d' % k, 'kind': rng.choice(['fifo', 'lifo']), 'period': rng.choice([0.01, 0.05]), 'times': rng.choice([0, 3]),
             'deferred': rng.choice([True, False, False, None]), 'start_delay': 0.0} for k in range(rng.randint(2, 3))]
  pol = aosim.policy_for(rng, est_len=800, fair_suffix=False)
  s = ds.Sched(seed=rng.randrange(1 << 30), max_steps=5000000, horizon=1e9, **pol)
  aosim.install(s)
  run = timersim.TimerRun()
  try:
    class Small(AO.ActiveObject):
      QUEUE_SIZE = cap
    ao = aosim.make_ao(run.hist, base=Small)
    st = timersim.make_state(run, [], spied=rng.random() < 0.5)
    import contextlib, io
    try:
      ao.start_at(st)
      for src in tracked:
        timersim.start_source(ao, run, src)
      ds.STime.sleep(rng.choice([0.0, 0.003]))
      sink = io.StringIO()
      with contextlib.redirect_stdout(sink):
        ths = [ds.SThread(target=timersim.start_source, args=(ao, run, r)) for r in racers]
        for t in ths:
          t.start()
        for t in ths:
          t.join()
        tracked_ids_after = [pe.uuid for pe in list(ao.posted_events_queue)]
        ds.STime.sleep(rng.choice([0.0777, 0.3123]))
    except ds.Verdict as v:
      ctx.violation('C31/' + v.kind, 'scenario ended in %s: %r' % (v.kind, v.info), {'capacity': cap, 'concurrent': True})
      return
    now = s.clock
    ctx.count('concurrent_runs')
    ctx.distinct(('conc', cap, len(racers), s.signature()[:40]))
    wit = {'capacity': cap, 'tracked_before': len(tracked), 'concurrent_posts': [dict((k, v) for k, v in x.items() if k != 'event') for x in racers], 'policy': pol,
           'accepted': sorted(i for i in run.ids if i >= cap - 1), 'refused': sorted(run.raised)}
    accepted = [r for r in racers if r['i'] in run.ids]
    refused = [r for r in racers if r['i'] in run.raised]
    if len(accepted) != 1 or len(refused) != len(racers) - 1:
      ctx.violation('C31/over-capacity-post-accepted/concurrent', 'with %d of %d tracking slots taken, %d threads armed a timed post at once: %d were accepted, %d refused (exactly one fits)' % (
        cap - 1, cap, len(racers), len(accepted), len(refused)), wit)
      return
    bad = [r['i'] for r in refused if not isinstance(run.raised[r['i']], AO.ActiveObjectOutOfPostedEventResources)]
    if bad:
      ctx.violation('C31/wrong-exception', 'refused concurrent posts raised %r' % [repr(run.raised[i]) for i in bad], wit)
      return
    missing = [src['i'] for src in tracked if run.ids[src['i']] not in tracked_ids_after]
    if missing:
      ctx.violation('C31/tracked-source-evicted', 'sources %r, tracked before the concurrent posts, are no longer tracked afterwards (tracked ids %r)' % (missing, tracked_ids_after), wit)
      return
    posts = timersim.postings(ao)
    for r in refused:
      mine = [p for p in posts if p[0] == r['i']]
      if mine:
        ctx.violation('C31/rejected-source-posted/%s' % ('nondeferred' if r['deferred'] is False else 'deferred'), 'a refused concurrent source posted its event %d time(s)' % len(mine), wit)
        return
    for src in tracked + accepted:
      ideal = timersim.expected_instants(src, run.t0[src['i']], now)
      got = [p for p in posts if p[0] == src['i']]
      if len(got) != len(ideal):
        ctx.violation('C31/tracked-source-disturbed', 'source %d has %d postings at t=%r, expected %d' % (src['i'], len(got), now, len(ideal)), wit)
        return
    exc = [(t.name, t.role, repr(t.exc)) for t in s.threads if t.exc is not None]
    if exc:
      ctx.violation('C31/exception-in-thread', 'a thread died: %r' % exc, wit)
  finally:
    z = ds.uninstall()
    if z:
      ctx.count('zombie_threads', z)


def run_case(ctx, n):
  if n % 4 == 3:
    return concurrent_case(ctx, n)
  rng = ctx.rng('case', n)
  cap = 500 if (ctx.tier == 'thorough' and n % 400 == 0) else rng.randint(2, 4)
  tracked = []
  for i in range(cap):
    tracked.append({'i': i, 'sig': rng.choice(['TICK_A', 'TICK_B']), 'kind': rng.choice(['fifo', 'lifo']),
                    'period': rng.choice([0.05, 0.1, 100.0, 100.0]) if cap < 100 else 100.0, 'times': rng.choice([0, 0, 3]), 'deferred': rng.choice([True, False, None]), 'start_delay': 0.0})
  rej = {'i': cap, 'sig': rng.choice(['TICK_A', 'TICK_R']), 'kind': rng.choice(['fifo', 'lifo']), 'period': rng.choice([0.01, 0.05, 0.01, 0, 0.0]),
         'times': rng.choice([0, 1, 1, 3]), 'deferred': rng.choice([True, False, False, None]), 'start_delay': 0.0}
  if rej['period'] == 0 and rej['times'] == 0:
    rej['times'] = 1           # (period 0 forever would spin: finite sources only)
  if rej['period'] == 0:
    ctx.count('rejected_with_zero_period')
  inside = rng.random() < 0.3
  pol = aosim.policy_for(rng, est_len=800, fair_suffix=False)
  s = ds.Sched(seed=rng.randrange(1 << 30), max_steps=5000000, horizon=1e9, **pol)
  aosim.install(s)
  run = timersim.TimerRun()
  try:
    class Small(AO.ActiveObject):
      QUEUE_SIZE = cap
    ao = aosim.make_ao(run.hist, base=Small)

    def do_reject(chart):
      timersim.start_source(chart, run, rej)
    st = timersim.make_state(run, [do_reject], spied=rng.random() < 0.5)
    import contextlib, io
    try:
      ao.start_at(st)
      for src in tracked:
        timersim.start_source(ao, run, src)
      ds.STime.sleep(rng.choice([0.0, 0.003, 0.12]))
      sink = io.StringIO()
      with contextlib.redirect_stdout(sink):       # miros pretty-prints the tracked list when it rejects
        if inside:
          ao.post_fifo(Event(signal='DO', payload=0))
          ds.STime.sleep(0.0005)
        else:
          do_reject(ao)
        ds.STime.sleep(rng.choice([0.0777, 0.3123]))
    except ds.Verdict as v:
      ctx.violation('C31/' + v.kind, 'scenario ended in %s: %r' % (v.kind, v.info), {'capacity': cap})
      return
    now = s.clock
    ctx.count('runs')
    ctx.count('rejected_nondeferred' if rej['deferred'] is False else 'rejected_deferred')
    if inside:
      ctx.count('rejected_from_handler')
    wrej = dict((k, v) for k, v in rej.items() if k != 'event')
    wit = {'capacity': cap, 'tracked': [dict((k, v) for k, v in x.items() if k != 'event') for x in tracked][:8], 'rejected': wrej, 'inside_handler': inside, 'policy': pol}
    ctx.distinct((cap if cap < 100 else 500, wrej['kind'], str(wrej['deferred']), wrej['times'], inside, s.signature()[:40]))
    early = [i for i in run.raised if i != cap]
    if early:
      ctx.violation('C31/tracked-source-rejected', 'a source within the capacity was rejected: %r' % {i: repr(run.raised[i]) for i in early}, wit)
      return
    if cap not in run.raised and cap not in run.ids:
      ctx.violation('C31/reject-call-never-ran', 'the extra timed post did not run', wit)
      return
    if cap not in run.raised:
      ctx.violation('C31/over-capacity-post-accepted', 'with %d sources tracked (the maximum) a further timed post returned %r instead of raising ActiveObjectOutOfPostedEventResources' % (cap, run.ids.get(cap)), wit)
      return
    if not isinstance(run.raised[cap], AO.ActiveObjectOutOfPostedEventResources):
      ctx.violation('C31/wrong-exception', 'the extra timed post raised %r' % run.raised[cap], wit)
      return
    posts = timersim.postings(ao)
    mine = [p for p in posts if p[0] == cap]
    if mine:
      ctx.violation('C31/rejected-source-posted/%s' % ('nondeferred' if rej['deferred'] is False else 'deferred'),
                    'the rejected source (deferred=%s, period %s) posted its event %d time(s), first at virtual time %r' % (rej['deferred'], rej['period'], len(mine), mine[0][3]), dict(wit, postings=mine[:4]))
      return
    for src in tracked:
      ideal = timersim.expected_instants(src, run.t0[src['i']], now)
      got = [p for p in posts if p[0] == src['i']]
      if len(got) != len(ideal):
        ctx.violation('C31/tracked-source-disturbed', 'tracked source %d has %d postings at t=%r, expected %d' % (src['i'], len(got), now, len(ideal)), wit)
        return
    exc = [(t.name, t.role, repr(t.exc)) for t in s.threads if t.exc is not None]
    if exc:
      ctx.violation('C31/exception-in-thread', 'a thread died: %r' % exc, wit)
      return
    if n < 3:
      ctx.sample(wit)
  finally:
    z = ds.uninstall()
    if z:
      ctx.count('zombie_threads', z)
