"""C13 -- fabric start/stop/restart keeps exactly one delivery thread per kind."""
import collections

import miros.activeobject as AO
from miros.event import Event
from vt import detsched as ds, aosim

ID = 'C13'
ENGINE = 'detsched'
TECHNIQUE = 'runtime monitoring: random start/stop/clear/subscribe/publish/active-object histories against a small executable model of the fabric, run under a deterministic cooperative scheduler; thread-census invariant at every Thread.start and operation boundary; exact deadlock detection'
RULE = ('random operation sequences (3-15) over {fabric.start, fabric.stop, fabric.clear, subscribe, publish, start an active object, post to an '
        'active object, START_FAULT (Thread.start of the lifo delivery thread raises once inside start(): start() fails half way, a later start() must complete the pair without a second fifo thread), PUB_STOP (1-3 publications immediately followed by stop(), so that stop() arrives while deliveries are in flight), FAULT (a lifo subscriber whose append raises, which kills the lifo delivery thread only)}, including repeated start / stop and clear while running, each operation followed by quiescence (delivery threads and '
        'objects interleaved by detsched). Invariants: at every Thread.start and after every operation at most one live fifo and one live lifo '
        'delivery thread; is_alive() == both live; after stop() none live; a publication made while running reaches exactly its current '
        'subscribers once; after stop(); start() a fresh subscription + publication is delivered; an active object that wakes while the '
        'fabric is stopped halts without dispatching; no operation deadlocks. distinct_nontrivial = distinct operation-kind sequences')
CASES = {'quick': 2000, 'thorough': 100000}
BUDGET = {'quick': 150, 'thorough': 300}
REQUIRE = {'sequences': 800, 'ops': 5639, 'repeated_start': 300, 'restart_after_stop': 239, 'clear_while_running': 200, 'object_wakes_while_stopped': 60, 'start_after_partial_failure': 50, 'stop_with_publications_in_flight': 300, 'start_failed_half_way': 60}
ASSUME = ['operations are issued by one thread, each followed by quiescence; publications made while the fabric is stopped are not constrained']
ANNOUNCE_CASES = True
ROLES = ('thread_runner_fifo', 'thread_runner_lifo')


class HarnessFault(Exception):
  pass


class FaultyQueue:
  """a subscriber whose append raises: a fault that kills the delivery thread that serves it"""
  def append(self, item):
    raise HarnessFault('subscriber queue refuses the event')


def census(s):
  c = collections.Counter()
  for t in s.threads:
    if t.role in ROLES and t.status != 'finished':
      c[t.role] += 1
  return c


def run_case(ctx, n):
  rng = ctx.rng('case', n)
  nops = rng.randint(3, 15)
  kinds = ['start', 'start', 'stop', 'stop', 'clear', 'sub', 'sub', 'pub', 'pub', 'ao_start', 'ao_post', 'ao_post', 'fault', 'pub_stop', 'pub_stop', 'start_fault']
  ops = [rng.choice(kinds) for _ in range(nops)]
  if rng.random() < 0.5:
    ops = ['start'] + ops
  pol = dict(policy='random', p_switch=rng.choice([0.05, 0.2, 0.5])) if rng.random() < 0.7 else dict(policy='pct', pct_depth=rng.choice([2, 3]), pct_len=800)
  s = ds.Sched(seed=rng.randrange(1 << 30), max_steps=3000000, **pol)
  aosim.install(s)
  over = []

  def on_start(sched, ts):
    c = census(sched)
    if any(v > 1 for v in c.values()):
      over.append(dict(c))
  s.on_thread_start = on_start
  try:
    fabric = AO.ActiveFabric()
    queues = [collections.deque() for _ in range(3)]
    sigs = ['C13_A', 'C13_B']
    model = {'running': False, 'subs': collections.defaultdict(set), 'ever_started': False, 'stopped_once': False}
    aos = []      # dicts: ao, hist, state ('alive'|'doomed'|'dead')
    uid = [0]
    done = []
    wit = {'ops': ops, 'policy': pol, 'done': done}
    ctx.distinct(tuple(ops))
    try:
      for k, op in enumerate(ops):
        detail = None
        if op == 'start_fault':
          # FAULT inside start(): the operating system refuses to start the lifo delivery thread (Thread.start raises once);
          # start() fails half way - the fifo thread, if it had to be started, runs - and a later start() must complete the pair
          s.fail_thread_start = 'thread_runner_lifo'
          before = s.thread_start_failures
          try:
            fabric.start()
          except (RuntimeError, AssertionError):
            pass
          s.fail_thread_start = None
          if s.thread_start_failures > before:
            ctx.count('start_failed_half_way')
            model['running'] = 'degraded'
            model['ever_started'] = True
            model['fault_pending'] = False if not model.get('faulty_sub') else model.get('fault_pending')
            for a in aos:
              if a['state'] == 'doomed':
                a['state'] = 'alive'
          elif not model['running']:
            model['running'] = True
        elif op == 'start':
          if model['running']:
            ctx.count('repeated_start')
          if model['stopped_once'] and not model['running']:
            ctx.count('restart_after_stop')
          if model['running'] == 'degraded':
            ctx.count('start_after_partial_failure')
          fabric.start()
          model['running'] = True if not model.get('fault_pending') else 'degraded'
          model['fault_pending'] = False
          model['ever_started'] = True
          for a in aos:
            if a['state'] == 'doomed':
              a['state'] = 'alive'
        elif op in ('stop', 'pub_stop'):
          if op == 'pub_stop':
            # stop() arrives while publications are still in flight (no quiescence in between): whether they are delivered
            # is not constrained, but stop() must end both threads and a later start() must resume delivery
            for _ in range(rng.randint(1, 3)):
              uid[0] += 1
              fabric.publish(Event(signal=rng.choice(sigs), payload=uid[0]))
            if model['running']:
              ctx.count('stop_with_publications_in_flight')
          fabric.stop()
          if model['running']:
            model['stopped_once'] = True
          model['running'] = False
          for a in aos:
            if a['state'] == 'alive':
              a['state'] = 'doomed'
        elif op == 'clear':
          if model['running']:
            ctx.count('clear_while_running')
          fabric.clear()
          model['subs'].clear()
          model['faulty_sub'] = False
          model['fault_pending'] = False
        elif op == 'sub':
          qi, sig, kind = rng.randrange(3), rng.choice(sigs), rng.choice(['fifo', 'lifo'])
          detail = (qi, sig, kind)
          fabric.subscribe(queues[qi], Event(signal=sig), queue_type=kind)
          model['subs'][(sig, kind)].add(qi)
        elif op == 'pub':
          uid[0] += 1
          sig = rng.choice(sigs)
          detail = (uid[0], sig)
          fabric.publish(Event(signal=sig, payload=uid[0]))
        elif op == 'fault' and model['running'] is not True:
          done.append((op, 'skipped: only injected while both delivery threads run'))
          continue
        elif op == 'fault':
          # a lifo subscriber that raises: its delivery thread dies, the other keeps running (until the next start())
          fabric.subscribe(FaultyQueue(), Event(signal='C13_FAULT'), queue_type='lifo')
          model['faulty_sub'] = True
          fabric.publish(Event(signal='C13_FAULT', payload=-1))
          if model['running'] is not True:
            model['fault_pending'] = True      # no live lifo thread: delivered (and fatal) right after the next start
          if model['running'] is True:
            model['running'] = 'degraded'
            ctx.count('lifo_thread_killed_by_fault')
        elif op == 'ao_start':
          hist = aosim.History()
          a = aosim.make_ao(hist, name='o%d' % len(aos))
          a.start_at(aosim.make_state(hist, {}, True, name='c13_state_%d' % len(aos)))
          aos.append({'ao': a, 'hist': hist, 'state': 'alive'})
          # an object starts the fabric when it is not alive (also after a partial failure)
          model['running'] = True if not model.get('fault_pending') else 'degraded'
          model['fault_pending'] = False
          model['ever_started'] = True
          for x in aos:
            if x['state'] == 'doomed':
              x['state'] = 'alive'
        elif op == 'ao_post':
          if not aos:
            done.append((op, 'skipped'))
            continue
          a = rng.choice(aos)
          uid[0] += 1
          detail = (aos.index(a), uid[0], a['state'])
          a['ao'].post_fifo(Event(signal='EVT', payload=uid[0]))
        done.append((op, detail))
        ctx.count('ops')
        s.quiesce()
        # ---- invariants at the operation boundary
        c = census(s)
        wit_k = dict(wit, after_op=k)
        if over or any(v > 1 for v in c.values()):
          ctx.violation('C13/more-than-one-delivery-thread', 'after %r: live delivery threads %r (at a Thread.start: %r)' % (done[-1], dict(c), over[:2]), wit_k)
          return
        live_both = c['thread_runner_fifo'] == 1 and c['thread_runner_lifo'] == 1
        if fabric.is_alive() != live_both:
          ctx.violation('C13/is-alive-wrong', 'after %r: is_alive() = %r but live delivery threads are %r' % (done[-1], fabric.is_alive(), dict(c)), wit_k)
          return
        if model['running'] == 'degraded':
          if c['thread_runner_fifo'] != 1 or c['thread_runner_lifo'] != 0:
            ctx.violation('C13/census-after-partial-failure', 'after %r (the lifo delivery thread was killed by a faulty subscriber) live delivery threads are %r, expected fifo 1 / lifo 0' % (done[-1], dict(c)), wit_k)
            return
        elif model['running'] and not live_both:
          ctx.violation('C13/not-running-after-start', 'after %r the fabric should run, live delivery threads: %r' % (done[-1], dict(c)), wit_k)
          return
        if not model['running'] and sum(c.values()):
          ctx.violation('C13/threads-alive-after-stop', 'after %r the fabric is stopped, but delivery threads are alive: %r' % (done[-1], dict(c)), wit_k)
          return
        if op == 'pub' and model['running'] is True:
          u, sig = detail
          for qi, q in enumerate(queues):
            want = sum(1 for kind in ('fifo', 'lifo') if qi in model['subs'][(sig, kind)])
            got = sum(1 for e in q if e.payload == u)
            if got != want:
              key = 'C13/publication-not-delivered' if got < want else 'C13/publication-over-delivered'
              if 'clear' in [d[0] for d in done]:
                key += '/after-clear'
              ctx.violation(key, 'publication %d (%s) made while the fabric runs is %d times in queue %d, its subscriptions give %d (ops so far %r)' % (u, sig, got, qi, want, [d[0] for d in done]), wit_k)
              return
        if op == 'ao_post':
          ai, u, st = detail
          a = aos[ai]
          dispatched = u in [d['uid'] for d in a['hist'].dispatch]
          if st == 'alive':
            if not dispatched:
              ctx.violation('C13/object-not-dispatching-while-fabric-runs', 'object %d did not dispatch event %d although the fabric runs' % (ai, u), wit_k)
              return
          elif st == 'doomed':
            ctx.count('object_wakes_while_stopped')
            a['state'] = 'dead'
            if dispatched or a['ao'].thread.is_alive():
              ctx.violation('C13/object-survives-fabric-stop', 'object %d woke while the fabric is stopped: dispatched=%r, thread alive=%r' % (ai, dispatched, a['ao'].thread.is_alive()), wit_k)
              return
    except ds.Verdict as v:
      key = 'C13/%s/in-%s' % (v.kind, ops[len(done)] if len(done) < len(ops) else 'end')
      if 'clear' in [d[0] for d in done]:
        key += '/after-clear'
      ctx.violation(key, 'operation %r did not complete: %s; blocked %r; ops done %r' % (ops[len(done)] if len(done) < len(ops) else None, v.kind, (v.info or {}).get('blocked'), [d[0] for d in done]), wit)
      return
    ctx.count('sequences')
    exc = [(t.name, t.role, repr(t.exc)) for t in s.threads if t.exc is not None and not isinstance(t.exc, HarnessFault)]
    if exc:
      ctx.violation('C13/exception-in-thread', 'a thread died: %r' % exc, wit)
      return
    if n < 3:
      ctx.sample({'ops': done})
  finally:
    z = ds.uninstall()
    if z:
      ctx.count('zombie_threads', z)
