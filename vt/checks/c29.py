"""C29 -- thread-safe attribute values belong to their instance."""
import importlib
import os
import sys
import tempfile

from vt import sysx

ID = 'C29'
ENGINE = 'seq'
TECHNIQUE = 'runtime monitoring: generated create/assign/read histories against a per-instance dictionary model; concurrent reader/writer cases under a deterministic cooperative scheduler (opcode-level yield points), partly enumerated systematically (delay-bounded)'
RULE = ('generated classes using MetaThreadSafeAttributes (1-4 attributes, optional subclass adding attributes, via the metaclass directly '
        'or via miros.ThreadSafeAttributes; a fifth of the classes forward unknown attribute names to a prototype instance through __getattr__), 2-5 instances created at random points (now and then an instance dies and a new one is created in its place, typically at the recycled address; some instances are made by copy.copy of another one and must be independent from then on), histories of plain assignment, augmented assignment '
        '(+=, -=, *=), reads and statements that touch TWO instances (objs[i].a += objs[j].a; a read of one instance on a comparison line followed by an assignment to another; an augmented assignment whose right-hand side raises, followed by an assignment to another instance); the statements are real source lines of a generated module (the descriptor inspects its caller\'s source). '
        'After every statement every attribute of every instance is read and compared with a per-instance dictionary model (fresh '
        'instance reads 0). Every fifth case is concurrent: 2-4 instances hold values from disjoint ranges (plus one never-assigned '
        'instance), 2-4 real threads read any instance and assign / += only their own one, under detsched with a yield point at every '
        'bytecode boundary of miros/thread_safe_attributes.py and of the statements; an owner must read back exactly what its own history '
        'gives, any other reader a value that instance held at some time (never another instance\'s), the fresh instance 0, and the final '
        'values must be those of the owners\' histories. distinct_nontrivial = distinct (classes, attributes, instances, history length, '
        'ops used) tuples, and for concurrent cases distinct context-switch sequences. ' + sysx.RULE_TEXT % (1, 1))
CASES = {'quick': 1500, 'thorough': 100000}
BUDGET = {'quick': 150, 'thorough': 600}
REQUIRE = {'statements': 10000, 'reads_compared': 50000, 'fresh_instance_reads': 2000, 'subclass_cases': 100,
           'concurrent_runs': 150, 'concurrent_reads_of_foreign_instance': 300, 'switch_inside_descriptor': 100, 'instances_replaced_by_new_ones': 1000, 'instances_made_by_shallow_copy': 500, 'systematic_schedules': 500, 'systematic_scenarios_exhausted': 1, 'statements_touching_two_instances': 400, 'instances_forwarding_unknown_names_to_a_prototype': 150}
ASSUME = ['lost updates / errors / deadlocks on ONE shared instance are C27; the concurrent cases here let only the owner thread write an instance', 'one statement per source line']
ANNOUNCE_CASES = True

TMP = None
SEQ = [0]


def setup_worker(ctx):
  global TMP
  TMP = tempfile.mkdtemp(prefix='vt-c29-')
  sys.path.insert(0, TMP)


def teardown_worker(ctx):
  import shutil
  shutil.rmtree(TMP, ignore_errors=True)


SYS = {'quick': (8, 1, 3000, 60.0), 'thorough': (64, 1, 100000, 120.0)}     # systematic cases, deviation bound, schedule cap, seconds cap (per scenario)


def concurrent_case(ctx, n):
  import miros.thread_safe_attributes as TSA
  from vt import detsched as ds, wl_c27
  rng = ctx.rng('conc', n)
  small = getattr(ctx, 'small', False)
  ninst = 2 if small else rng.randint(2, 4)
  nthreads = 2 if small else rng.randint(2, 4)
  fresh = ninst                      # index of the never-assigned instance
  base = [1000 * (i + 1) for i in range(ninst)]
  plans, legal, own_model = [], {i: [base[i]] for i in range(ninst)}, {}
  legal[fresh] = [0]
  for t in range(nthreads):
    plan, cur = [], base[t] if t < ninst else None
    for _ in range(rng.randint(1, 2) if small else rng.randint(2, 5)):
      r = rng.random()
      if t < ninst and r < 0.45:
        if rng.random() < 0.5:
          cur = base[t] + rng.randint(1, 400)
          plan.append(('=', t, cur))
        else:
          c = rng.randint(1, 9)
          cur += c
          plan.append(('+=', t, c))
        legal[t].append(cur)
        plan.append(('read', t, ('own', cur)))
      else:
        plan.append(('read', rng.randrange(ninst + 1), None))
    plans.append(plan)
    if t < ninst:
      own_model[t] = cur
  pol = dict(policy='random', p_switch=rng.choice([0.05, 0.15, 0.4])) if rng.random() < 0.6 else dict(policy='pct', pct_depth=rng.choice([2, 3, 4]), pct_len=500)
  s = ds.Sched(seed=rng.randrange(1 << 30), max_steps=300000, **pol)
  ds.install(s, op_mods=[TSA, wl_c27])
  wit = {'concurrent': True, 'instances': ninst, 'initial_values': base, 'plans': plans, 'policy': pol}
  try:
    class K(metaclass=TSA.MetaThreadSafeAttributes):
      _attributes = ['a', 'b']
    objs = [K() for _ in range(ninst + 1)]
    for i in range(ninst):
      wl_c27.set_i(objs, i, base[i])
    outs = [[] for _ in plans]
    try:
      ths = [ds.SThread(target=wl_c27.worker_multi, args=(objs, pl, outs[i])) for i, pl in enumerate(plans)]
      for t in ths:
        t.start()
      for t in ths:
        t.join()
      s.quiesce()
      final = []
      p = ds.SThread(target=lambda: final.extend(o.a for o in objs))
      p.start()
      p.join()
    except ds.Verdict:
      ctx.count('other_property_disagreements')      # deadlock / budget while using the attribute: C27's business
      return
    if any(t.exc is not None for t in s.threads):
      ctx.count('other_property_disagreements')
      return
    ctx.count('concurrent_runs')
    ctx.distinct(('conc',) + s.signature())
    if any(isinstance(loc, tuple) and loc[0] in ('__get__', '__set__', '_value_of') for (_, _, loc) in s.trail):
      ctx.count('switch_inside_descriptor')
    wit['trail'] = s.trail[-40:]
    for t, (plan, out) in enumerate(zip(plans, outs)):
      reads = [x for x in plan if x[0] == 'read']
      for (op, i, tag), (j, got) in zip(reads, out):
        ctx.count('reads_compared')
        if tag is not None:
          if got != tag[1]:
            ctx.violation('C29/value-leaked-between-instances', 'thread %d, the only writer of instance %d, read %r from it right after its own history made it %r' % (t, i, got, tag[1]), wit)
            return
        else:
          if i != t:
            ctx.count('concurrent_reads_of_foreign_instance')
          if got not in legal[i]:
            what = 'fresh-instance-does-not-read-0' if i == fresh else 'value-leaked-between-instances'
            ctx.violation('C29/' + what, 'thread %d read %r from instance %d, which only ever held %r%s' % (t, got, i, legal[i], ' (never assigned)' if i == fresh else ''), wit)
            return
    exp_final = [own_model.get(i, base[i]) for i in range(ninst)] + [0]
    if final != exp_final:
      ctx.violation('C29/value-leaked-between-instances', 'after all threads finished the instances read %r, their own histories give %r' % (final, exp_final), wit)
      return
    if n < 10:
      ctx.sample({'concurrent_plans': plans, 'reads': outs, 'switches': s.switches})
  finally:
    z = ds.uninstall()
    if z:
      ctx.count('zombie_threads', z)


def run_case(ctx, n):
  if n % 5 == 4:
    if n < 5 * SYS[ctx.tier][0]:
      sysx.explore(ctx, n, concurrent_case, *SYS[ctx.tier][1:])      # systematic: every schedule within the deviation bound
      return
    return concurrent_case(ctx, n)
  rng = ctx.rng('case', n)
  nattr = rng.randint(1, 4)
  attrs = ['a%d' % i for i in range(nattr)]
  sub = rng.random() < 0.3
  sub_attrs = ['b%d' % i for i in range(rng.randint(1, 2))] if sub else []
  via = rng.choice(['meta', 'base'])
  ninst = rng.randint(2, 5)
  lines = ['import gc', 'import copy', 'from miros.thread_safe_attributes import MetaThreadSafeAttributes',
           'from miros.activeobject import ThreadSafeAttributes', '']
  # a fifth of the classes FORWARD unknown attribute names to a prototype instance (__getattr__: the parent / prototype / wrapper
  # idiom); the prototype is another instance of the same class, with values of its own
  forwarding = rng.random() < 0.2
  fwd = ['  def __getattr__(self, name):', "    proto = self.__dict__.get('proto_')", '    if proto is None:', '      raise AttributeError(name)', '    return getattr(proto, name)', ''] if forwarding else []
  if via == 'meta':
    lines += ['class K(metaclass=MetaThreadSafeAttributes):', '  _attributes = %r' % attrs] + fwd + ['']
  else:
    lines += ['class K(ThreadSafeAttributes):', '  _attributes = %r' % attrs] + fwd + ['']
  if sub:
    lines += ['class S(K):', '  _attributes = %r' % (attrs + sub_attrs), '']
  lines += ['def boom():', '  return 1 // 0', '', 'def run(probe):', '  objs = {}']
  model = {}
  ops_used = set()
  stmts = []
  created = 0
  replaced = 0
  copies = 0
  nst = rng.randint(8, 40)
  body = []
  hist = []
  two = [0]
  nfwd = [0]
  for k in range(nst):
    if created >= 2 and rng.random() < 0.12:
      # an instance dies and a NEW one takes its slot (CPython usually gives it the recycled address): it must read 0
      i = rng.randrange(created)
      cls = 'S' if (sub and rng.random() < 0.5) else 'K'
      body.append('  objs[%d] = None; gc.collect(); objs[%d] = %s()' % (i, i, cls))
      hist.append(('create', i, cls))
      replaced += 1
    elif created >= 1 and created < ninst + 2 and rng.random() < 0.08:
      # a new instance made by SHALLOW COPY of an existing one (copy.copy, a clone() idiom): it starts with the same values
      # and is independent from then on
      i = rng.randrange(created)
      cls = next(h[2] for h in reversed(hist) if h[0] in ('create', 'copy') and h[1] == i)
      body.append('  objs[%d] = copy.copy(objs[%d])' % (created, i))
      hist.append(('copy', created, cls, i))
      created += 1
      copies += 1
    elif created < 2 or (created < ninst and rng.random() < 0.25):
      cls = 'S' if (sub and rng.random() < 0.5) else 'K'
      body.append('  objs[%d] = %s()' % (created, cls))
      if forwarding and created >= 1:
        # the new instance forwards unknown names to an older one; its own thread-safe attributes still start at 0
        body.append('  objs[%d].proto_ = objs[%d]' % (created, rng.randrange(created)))
        nfwd[0] += 1
      hist.append(('create', created, cls))
      created += 1
    else:
      i = rng.randrange(created)
      cls_i = next(h[2] for h in reversed(hist) if h[0] in ('create', 'copy') and h[1] == i)
      a = rng.choice(attrs + (sub_attrs if cls_i == 'S' else []))
      r = rng.random()
      v = rng.randrange(1, 50)
      if r < 0.45:
        body.append('  objs[%d].%s = %d' % (i, a, v))
        hist.append(('set', i, a, v))
      elif r < 0.9:
        op = rng.choice(['+=', '-=', '*='])
        body.append('  objs[%d].%s %s %d' % (i, a, op, v))
        hist.append(('aug', i, a, op, v))
      elif r < 0.93 or created < 2:
        body.append('  _ = objs[%d].%s' % (i, a))
        hist.append(('read', i, a))
      else:
        # statements that touch TWO instances: the write must land in the instance the statement names
        j = rng.choice([x for x in range(created) if x != i])
        cls_j = next(h[2] for h in reversed(hist) if h[0] in ('create', 'copy') and h[1] == j)
        common = [x for x in attrs + (sub_attrs if cls_i == 'S' and cls_j == 'S' else [])]
        a = rng.choice(common)
        kind = rng.choice(['aug-from-other', 'compare-then-set-other', 'failed-aug-then-set-other'])
        if kind == 'aug-from-other':
          op = rng.choice(['+=', '-='])
          body.append('  objs[%d].%s %s objs[%d].%s' % (i, a, op, j, a))
          hist.append(('augx', i, a, op, j))
        elif kind == 'compare-then-set-other':
          body.append('  _ = objs[%d].%s >= 3' % (i, a))
          body.append('  objs[%d].%s = %d' % (j, a, v))
          hist.append(('set', j, a, v))
        else:
          body.append('  try:')
          body.append('    objs[%d].%s += boom()' % (i, a))
          body.append('  except ZeroDivisionError:')
          body.append('    pass')
          body.append('  objs[%d].%s = %d' % (j, a, v))
          hist.append(('set', j, a, v))
        two[0] += 1
    body.append('  probe(%d, objs)' % k)
  lines += body
  SEQ[0] += 1
  modname = 'c29_wl_%d_%d' % (os.getpid(), SEQ[0])
  with open(os.path.join(TMP, modname + '.py'), 'w') as f:
    f.write('\n'.join(lines) + '\n')
  mod = importlib.import_module(modname)
  wit = {'module_source': lines, 'history': hist}
  state = {'bad': None}
  cls_of = {}

  def probe(k, objs):
    if state['bad']:
      return
    h = hist[k]
    ctx.count('statements')
    ops_used.add(h[0] if h[0] != 'aug' else h[3])
    if h[0] == 'copy':
      cls_of[h[1]] = h[2]
      model[h[1]] = dict(model[h[3]])
    elif h[0] == 'create':
      cls_of[h[1]] = h[2]
      model[h[1]] = {a: 0 for a in attrs + (sub_attrs if h[2] == 'S' else [])}
      ctx.count('fresh_instance_reads', len(model[h[1]]))
    elif h[0] == 'set':
      model[h[1]][h[2]] = h[3]
    elif h[0] == 'augx':
      cur, other = model[h[1]][h[2]], model[h[4]][h[2]]
      model[h[1]][h[2]] = cur + other if h[3] == '+=' else cur - other
    elif h[0] == 'aug':
      cur = model[h[1]][h[2]]
      model[h[1]][h[2]] = {'+=': cur + h[4], '-=': cur - h[4], '*=': cur * h[4]}[h[3]]
    for i, vals in model.items():
      for a, exp in vals.items():
        got = getattr(objs[i], a)
        ctx.count('reads_compared')
        if got != exp:
          what = 'fresh instance does not read 0' if h[0] == 'create' and i == h[1] else 'value leaked between instances'
          state['bad'] = ('C29/' + what.replace(' ', '-'), 'after statement %d %r: instance %d .%s reads %r, its own history gives %r' % (k, h, i, a, got, exp))
          return
  try:
    mod.run(probe)
  except Exception as ex:
    ctx.violation('C29/statement-raises', 'history raised %s: %s' % (type(ex).__name__, ex), wit)
    return
  finally:
    sys.modules.pop(modname, None)
    try:
      os.unlink(os.path.join(TMP, modname + '.py'))
    except OSError:
      pass
  if sub:
    ctx.count('subclass_cases')
  ctx.count('instances_replaced_by_new_ones', replaced)
  ctx.count('instances_made_by_shallow_copy', copies)
  ctx.count('statements_touching_two_instances', two[0])
  ctx.count('instances_forwarding_unknown_names_to_a_prototype', nfwd[0])
  ctx.distinct((2 if sub else 1, nattr + len(sub_attrs), created, nst, tuple(sorted(ops_used))))
  if state['bad']:
    ctx.violation(state['bad'][0], state['bad'][1], wit)
  if n < 2:
    ctx.sample({'module_source': lines[:30]})
