"""C29 -- thread-safe attribute values belong to their instance."""
import importlib
import os
import sys
import tempfile

ID = 'C29'
ENGINE = 'seq'
TECHNIQUE = 'runtime monitoring: generated create/assign/read histories against a per-instance dictionary model'
RULE = ('generated classes using MetaThreadSafeAttributes (1-4 attributes, optional subclass adding attributes, via the metaclass directly '
        'or via miros.ThreadSafeAttributes), 2-5 instances created at random points, histories of plain assignment, augmented assignment '
        '(+=, -=, *=) and reads; the statements are real source lines of a generated module (the descriptor inspects its caller\'s source). '
        'After every statement every attribute of every instance is read and compared with a per-instance dictionary model (fresh '
        'instance reads 0). distinct_nontrivial = distinct (classes, attributes, instances, history length, ops used) tuples')
CASES = {'quick': 1500, 'thorough': 100000}
BUDGET = {'quick': 40, 'thorough': 300}
REQUIRE = {'statements': 10000, 'reads_compared': 50000, 'fresh_instance_reads': 2000, 'subclass_cases': 100}
ASSUME = ['single thread (concurrency is C27)', 'one statement per source line']

TMP = None
SEQ = [0]


def setup_worker(ctx):
  global TMP
  TMP = tempfile.mkdtemp(prefix='vt-c29-')
  sys.path.insert(0, TMP)


def teardown_worker(ctx):
  import shutil
  shutil.rmtree(TMP, ignore_errors=True)


def run_case(ctx, n):
  rng = ctx.rng('case', n)
  nattr = rng.randint(1, 4)
  attrs = ['a%d' % i for i in range(nattr)]
  sub = rng.random() < 0.3
  sub_attrs = ['b%d' % i for i in range(rng.randint(1, 2))] if sub else []
  via = rng.choice(['meta', 'base'])
  ninst = rng.randint(2, 5)
  lines = ['from miros.thread_safe_attributes import MetaThreadSafeAttributes',
           'from miros.activeobject import ThreadSafeAttributes', '']
  if via == 'meta':
    lines += ['class K(metaclass=MetaThreadSafeAttributes):', '  _attributes = %r' % attrs, '']
  else:
    lines += ['class K(ThreadSafeAttributes):', '  _attributes = %r' % attrs, '']
  if sub:
    lines += ['class S(K):', '  _attributes = %r' % (attrs + sub_attrs), '']
  lines += ['def run(probe):', '  objs = {}']
  model = {}
  ops_used = set()
  stmts = []
  created = 0
  nst = rng.randint(8, 40)
  body = []
  hist = []
  for k in range(nst):
    if created < 2 or (created < ninst and rng.random() < 0.25):
      cls = 'S' if (sub and rng.random() < 0.5) else 'K'
      body.append('  objs[%d] = %s()' % (created, cls))
      hist.append(('create', created, cls))
      created += 1
    else:
      i = rng.randrange(created)
      cls_i = next(h[2] for h in hist if h[0] == 'create' and h[1] == i)
      a = rng.choice(attrs + (sub_attrs if cls_i == 'S' else []))
      r = rng.random()
      v = rng.randrange(1, 50)
      if r < 0.45:
        body.append('  objs[%d].%s = %d' % (i, a, v))
        hist.append(('set', i, a, v))
      elif r < 0.9:
        op = rng.choice(['+=', '-=', '*='])
        body.append('  objs[%d].%s %s %d' % (i, a, op, v))
        hist.append(('aug', i, a, op, v))
      else:
        body.append('  _ = objs[%d].%s' % (i, a))
        hist.append(('read', i, a))
    body.append('  probe(%d, objs)' % k)
  lines += body
  SEQ[0] += 1
  modname = 'c29_wl_%d_%d' % (os.getpid(), SEQ[0])
  with open(os.path.join(TMP, modname + '.py'), 'w') as f:
    f.write('\n'.join(lines) + '\n')
  mod = importlib.import_module(modname)
  wit = {'module_source': lines, 'history': hist}
  state = {'bad': None}
  cls_of = {}

  def probe(k, objs):
    if state['bad']:
      return
    h = hist[k]
    ctx.count('statements')
    ops_used.add(h[0] if h[0] != 'aug' else h[3])
    if h[0] == 'create':
      cls_of[h[1]] = h[2]
      model[h[1]] = {a: 0 for a in attrs + (sub_attrs if h[2] == 'S' else [])}
      ctx.count('fresh_instance_reads', len(model[h[1]]))
    elif h[0] == 'set':
      model[h[1]][h[2]] = h[3]
    elif h[0] == 'aug':
      cur = model[h[1]][h[2]]
      model[h[1]][h[2]] = {'+=': cur + h[4], '-=': cur - h[4], '*=': cur * h[4]}[h[3]]
    for i, vals in model.items():
      for a, exp in vals.items():
        got = getattr(objs[i], a)
        ctx.count('reads_compared')
        if got != exp:
          what = 'fresh instance does not read 0' if h[0] == 'create' and i == h[1] else 'value leaked between instances'
          state['bad'] = ('C29/' + what.replace(' ', '-'), 'after statement %d %r: instance %d .%s reads %r, its own history gives %r' % (k, h, i, a, got, exp))
          return
  try:
    mod.run(probe)
  except Exception as ex:
    ctx.violation('C29/statement-raises', 'history raised %s: %s' % (type(ex).__name__, ex), wit)
    return
  finally:
    sys.modules.pop(modname, None)
    try:
      os.unlink(os.path.join(TMP, modname + '.py'))
    except OSError:
      pass
  if sub:
    ctx.count('subclass_cases')
  ctx.distinct((2 if sub else 1, nattr + len(sub_attrs), created, nst, tuple(sorted(ops_used))))
  if state['bad']:
    ctx.violation(state['bad'][0], state['bad'][1], wit)
  if n < 2:
    ctx.sample({'module_source': lines[:30]})
