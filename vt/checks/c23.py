"""C23 -- state_name and state_fn always describe the current state."""
from vt import qcheck, chartgen as cg, hosts

ID = 'C23'
ENGINE = 'chartgen+model'
RULE = ('generated charts on every host (plain, instrumented, queued, active object; spied or not; instrumented or not): immediately '
        'after start_at and after every step state_name must be the name of the reference model\'s rest state, state_fn must be that '
        'state\'s handler or the function it decorates, and on instrumented queued charts current_state() must return the same name. '
        'a share of the plain / instrumented host runs use charts in which DIFFERENT states share one function name (state_fn must be the handler of the state the chart is in, not of a namesake); a share of the runs on every host use handlers that carry a user\'s own functools.wraps decorator - alone, UNDER spy_on, or two of them stacked (state_fn must be the state function or the function it decorates, not the function at the bottom of the stack); state_name / state_fn are observed only at step boundaries; current_state() is also asked right after client-side is_in / child_state queries between two steps (the chart took no step, the answer must not change). distinct_nontrivial = distinct (host config, rest-state depth, step kind) tuples')
CASES = {'quick': 3000, 'thorough': 200000}
BUDGET = {'quick': 150, 'thorough': 300}
REQUIRE = {'name_observations': 30000, 'plain_host_runs': 200, 'current_state_asked_after_queries': 584, 'charts_with_states_sharing_a_name': 79, 'runs_with_stacked_decorators': 354}
ASSUME = ['what state_name shows in the middle of a step or right after an is_in query is not asserted (current_state() is: it asks the current handler)']


def run_case(ctx, n):
  rng = ctx.rng('kind', n)
  if rng.random() < 0.35:
    return direct_case(ctx, n)
  r = qcheck.run_qcase(ctx, n, ('C23',), with_queries=n % 2 == 0, spied=(True, False), instrumented=(True, False), decos=(None, None, None, 'wraps', 'spy-over-wraps', 'wraps-twice'), restarts=True)
  if r is None:
    return
  res, spec, cfg = r
  if cfg.get('deco') in ('spy-over-wraps', 'wraps-twice'):
    ctx.count('runs_with_stacked_decorators')
  for s in res.steps[:50]:
    ctx.distinct((hosts.cfg_name(cfg), s['rest'] is not None, len(s['log']) > 3))


def direct_case(ctx, n):
  rng = ctx.rng('direct', n)
  spec = cg.gen_spec(rng, nmax=12, name_style=rng.choice(cg.NAME_STYLES))
  if rng.random() < 0.3 and spec['n'] >= 3:
    # DIFFERENT states that share a function name (closures from one builder, an 'idle' substate per mode ...): state_fn must
    # still be the handler of the state the chart is in, not of a namesake
    k = rng.randint(1, max(1, spec['n'] // 2))
    spec['names'] = ['same_name_%d' % (i % k) for i in range(spec['n'])]
    ctx.count('charts_with_states_sharing_a_name')
  start = rng.randrange(spec['n'])
  script = cg.gen_script(rng, spec, rng.randint(5, 40))
  cfg = {'host': rng.choice(['plain', 'instr']), 'spied': rng.random() < 0.5}
  deco = rng.choice([None, None, 'wraps', 'spy-over-wraps', 'wraps-twice'])
  if deco:
    # handler styles: a user's own functools.wraps decorator, alone, under spy_on, or two of them stacked; state_fn must be the
    # state function or the function IT decorates - not whatever sits at the bottom of the stack
    cfg['deco'] = deco
    cfg['spied'] = deco == 'spy-over-wraps'
    if deco != 'wraps':
      ctx.count('runs_with_stacked_decorators')
  res = hosts.run_config(spec, start, script, cfg, keep_chart=True)
  ctx.count('plain_host_runs')
  if res.error:
    ctx.count('other_property_disagreements')
    return
  m = cg.Model(spec)
  m.start(start)
  wit = {'spec': spec, 'start': start, 'script': script, 'config': cfg}
  for k in range(len(script) + 1):
    if k:
      m.dispatch(script[k - 1])
    ctx.count('name_observations')
    ctx.distinct((hosts.cfg_name(cfg), cg.depth_of(spec['parent'], m.cur), k == 0))
    if res.rest[k] != spec['names'][m.cur]:
      ctx.violation('C23/state-name', 'state_name %r after step %d, current state is %s' % (res.rest[k], k - 1, spec['names'][m.cur]), dict(wit, failing_step=k - 1))
      return
    fn = res.state_fn_ok[k]
    if not res.run.is_handler_of(fn, m.cur):
      ctx.violation('C23/state-fn', 'state_fn %r after step %d, current state is %s' % (fn, k - 1, spec['names'][m.cur]), dict(wit, failing_step=k - 1))
      return
