"""C01 -- transitions run exits, entries and inits in UML order (DESIGN.md section 3)."""
from vt import chartgen as cg, seqrun

ID = 'C01'
RULE = ('random state trees (shapes rand/chain/bushy/two/comb/flat, up to 40 states, depth up to ~35) with random '
        'initial transitions to any strict descendant, random reactions (handle / transition to any state / guard) '
        'and random event scripts on the plain HsmEventProcessor (every fifth case on InstrumentedHsmEventProcessor or HsmWithQueues, instrumented or not, handlers under spy_on or plain, stepped through dispatch()); every dispatch is compared with an independent '
        'reference model (exact exit*/entry*/init list and rest state); in every second case client code calls is_in / '
        'child_state on random states between two events, and in every third case entry / exit / init ACTIONS ask is_in / child_state themselves, in the middle of the step (the IS_IN / history idioms). Every sixth case runs TWO charts: entry / exit / init actions and reactions of a container chart hand events to a component chart (chart_b.dispatch(e) inside a handler of chart_a, the orthogonal-component idiom), and both must follow their own designs. distinct_nontrivial = distinct '
        '(topology class a-h, depth of S, depth of T, depth of current state, init-chain length) tuples among '
        'steps that were transitions')
CASES = {'quick': 30000, 'thorough': 600000}
BUDGET = {'quick': 150, 'thorough': 300}
REQUIRE = {'transitions': 1000, 'topo_a': 1, 'topo_b': 1, 'topo_c': 1, 'topo_d': 1, 'topo_e': 1,
           'topo_f': 1, 'topo_g': 1, 'topo_h': 1, 'init_chain_after_deep_target': 1, 'state_queries_made_by_actions': 20000, 'runs_on_instrumented_or_queued_hosts': 1666, 'container_and_component_runs': 1666, 'steps_in_which_both_charts_made_a_transition': 2000}
ASSUME = ['generated charts are well-formed: handlers return a status, parents form a tree, inits target strict descendants',
          'the reference model in vt/chartgen.py is the reading of the statement (cross-checked three ways against plain and instrumented hosts)']
PROPS = ('C01',)


def component_case(ctx, n):
  """a chart whose entry / exit / init actions and reactions hand events to ANOTHER chart object (an orthogonal component it
  owns: chart_b.dispatch(e) from inside a handler of chart_a, the component running to completion in the middle of the
  container's step).  Both charts must do what their own design says: whatever one event processor keeps while it works
  belongs to that chart object only"""
  from miros.event import Event
  from miros.hsm import HsmEventProcessor, InstrumentedHsmEventProcessor, HsmWithQueues
  rng = ctx.rng('component', n)
  spec_a = cg.gen_spec(rng, **seqrun.pick_params(rng, ctx.tier))
  spec_b = cg.gen_spec(rng, nmax=rng.choice([4, 8, 12]))
  spec_b['names'] = ['c_' + x for x in spec_b['names']]
  sig_b = spec_b['sigs'][:-1]
  for i, cl in enumerate(spec_a['clauses']):
    for ci, cn in enumerate(('entry', 'exit', 'init')):
      if cl[ci] and rng.random() < 0.3:
        spec_a['acts']['%d:%s' % (i, cn)] = [['dispatch_component', rng.choice(sig_b)] for _ in range(rng.randint(1, 2))]
  for key in sorted(spec_a['react']):
    if rng.random() < 0.2:
      spec_a['react'][key]['acts'] = [['dispatch_component', rng.choice(sig_b)]]
  start_a, start_b = rng.randrange(spec_a['n']), rng.randrange(spec_b['n'])
  script = cg.gen_script(rng, spec_a, rng.randint(10, 40))
  host, hk = rng.choice([(HsmEventProcessor, {}), (HsmEventProcessor, {}), (InstrumentedHsmEventProcessor, {}), (HsmWithQueues, {'instrumented': True}), (HsmWithQueues, {'instrumented': False})])
  spied = host is not HsmEventProcessor and rng.random() < 0.5
  run_a, run_b = cg.Run(spec_a, spied=spied), cg.Run(spec_b, spied=spied)
  chart_a, chart_b = cg.counted_host(host, run_a)(**hk), cg.counted_host(host, run_b)(**hk)
  run_a.component = chart_b
  ma, mb = cg.Model(spec_a), cg.Model(spec_b)
  wit = {'container': spec_a, 'component': spec_b, 'start': (start_a, start_b), 'script': script, 'host': host.__name__}
  ctx.count('container_and_component_runs')

  def judge(k, sn, exp_a):
    comp = [r[2] for r in run_a.log if r[0] == 'act' and r[1] == 'dispatch_component']
    exp_b = []
    for sg in comp:
      exp_b += mb.dispatch(sg)[0]
    ctx.count('events_handed_to_the_component_inside_a_step', len(comp))
    if any(r[0] in ('entry', 'exit') for r in exp_b) and any(r[0] in ('entry', 'exit') for r in exp_a):
      ctx.count('steps_in_which_both_charts_made_a_transition')
    where = 'start_at' if k < 0 else 'step %d (%s)' % (k, sn)
    if seqrun.split(run_a.log) != seqrun.split(exp_a) or chart_a.state_name != spec_a['names'][ma.cur]:
      ctx.violation('C01/transition-actions-differ', '%s of a chart whose handlers hand events to a component chart (%d during this step): offers / actions %r rest %s, its design gives %r rest %s' % (
        where, len(comp), seqrun.split(run_a.log), chart_a.state_name, seqrun.split(exp_a), spec_a['names'][ma.cur]), dict(wit, failing_step=k))
      return False
    if seqrun.split(run_b.log) != seqrun.split(exp_b) or chart_b.state_name != spec_b['names'][mb.cur]:
      ctx.violation('C01/transition-actions-differ', '%s: the COMPONENT chart (given %r by the container\'s handlers) did %r and rests in %s, its design gives %r rest %s' % (
        where, comp, seqrun.split(run_b.log), chart_b.state_name, seqrun.split(exp_b), spec_b['names'][mb.cur]), dict(wit, failing_step=k))
      return False
    return True
  try:
    chart_b.start_at(run_b.fns[start_b])
    if seqrun.split(run_b.log)[1] != mb.start(start_b):
      ctx.count('other_property_disagreements')
      return
    run_b.reset_logs()
    chart_a.start_at(run_a.fns[start_a])
    if not judge(-1, None, ma.start(start_a)):
      return
    for k, sn in enumerate(script):
      run_a.reset_logs()
      run_b.reset_logs()
      exp_a = ma.dispatch(sn)[0]
      chart_a.dispatch(Event(signal=sn))
      if not judge(k, sn, exp_a):
        return
      ctx.count('steps')
  except cg.Budget:
    ctx.violation('C0x/dispatch-does-not-terminate', 'a step of a chart whose handlers hand events to a component chart exceeded the step budget', wit)


def run_case(ctx, n):
  if n % 6 == 1:
    return component_case(ctx, n)
  rng = ctx.rng('case', n)
  spec = cg.gen_spec(rng, clause_queries=n % 3 == 0, **seqrun.pick_params(rng, ctx.tier))
  start = rng.randrange(spec['n'])
  script = cg.gen_script(rng, spec, rng.randint(10, 60))
  kw = {}
  if n % 5 == 4:
    # the hosts built on the same event processor, stepped through dispatch(): InstrumentedHsmEventProcessor and HsmWithQueues
    # (instrumented or not), handlers under spy_on or plain; the client queries then include current_state()
    from miros.hsm import InstrumentedHsmEventProcessor, HsmWithQueues
    host, hk = rng.choice([(InstrumentedHsmEventProcessor, {}), (HsmWithQueues, {'instrumented': True}), (HsmWithQueues, {'instrumented': False})])
    kw = dict(host_cls=host, host_kwargs=hk, spied=rng.random() < 0.5)
    ctx.count('runs_on_instrumented_or_queued_hosts')
  for prop, key, what, wit in seqrun.run_plain(ctx, rng, spec, start, script, query_rng=ctx.rng('queries', n) if n % 2 else None, **kw):
    if prop in PROPS or key.startswith('C0x') and 'C01' in PROPS:
      ctx.violation(key, what, wit)
    else:
      ctx.count('other_property_disagreements')
  if n < 2:
    ctx.sample({'spec': spec, 'start': start, 'script': script})
