"""C01 -- transitions run exits, entries and inits in UML order (DESIGN.md section 3)."""
from vt import chartgen as cg, seqrun

ID = 'C01'
RULE = ('random state trees (shapes rand/chain/bushy/two/comb/flat, up to 40 states, depth up to ~35) with random '
        'initial transitions to any strict descendant, random reactions (handle / transition to any state / guard) '
        'and random event scripts on the plain HsmEventProcessor (every fifth case on InstrumentedHsmEventProcessor or HsmWithQueues, instrumented or not, handlers under spy_on or plain, stepped through dispatch()); every dispatch is compared with an independent '
        'reference model (exact exit*/entry*/init list and rest state); in every second case client code calls is_in / '
        'child_state on random states between two events, and in every third case entry / exit / init ACTIONS ask is_in / child_state themselves, in the middle of the step (the IS_IN / history idioms). distinct_nontrivial = distinct '
        '(topology class a-h, depth of S, depth of T, depth of current state, init-chain length) tuples among '
        'steps that were transitions')
CASES = {'quick': 30000, 'thorough': 600000}
BUDGET = {'quick': 150, 'thorough': 300}
REQUIRE = {'transitions': 1000, 'topo_a': 1, 'topo_b': 1, 'topo_c': 1, 'topo_d': 1, 'topo_e': 1,
           'topo_f': 1, 'topo_g': 1, 'topo_h': 1, 'init_chain_after_deep_target': 1, 'state_queries_made_by_actions': 20000, 'runs_on_instrumented_or_queued_hosts': 3000}
ASSUME = ['generated charts are well-formed: handlers return a status, parents form a tree, inits target strict descendants',
          'the reference model in vt/chartgen.py is the reading of the statement (cross-checked three ways against plain and instrumented hosts)']
PROPS = ('C01',)


def run_case(ctx, n):
  rng = ctx.rng('case', n)
  spec = cg.gen_spec(rng, clause_queries=n % 3 == 0, **seqrun.pick_params(rng, ctx.tier))
  start = rng.randrange(spec['n'])
  script = cg.gen_script(rng, spec, rng.randint(10, 60))
  kw = {}
  if n % 5 == 4:
    # the hosts built on the same event processor, stepped through dispatch(): InstrumentedHsmEventProcessor and HsmWithQueues
    # (instrumented or not), handlers under spy_on or plain; the client queries then include current_state()
    from miros.hsm import InstrumentedHsmEventProcessor, HsmWithQueues
    host, hk = rng.choice([(InstrumentedHsmEventProcessor, {}), (HsmWithQueues, {'instrumented': True}), (HsmWithQueues, {'instrumented': False})])
    kw = dict(host_cls=host, host_kwargs=hk, spied=rng.random() < 0.5)
    ctx.count('runs_on_instrumented_or_queued_hosts')
  for prop, key, what, wit in seqrun.run_plain(ctx, rng, spec, start, script, query_rng=ctx.rng('queries', n) if n % 2 else None, **kw):
    if prop in PROPS or key.startswith('C0x') and 'C01' in PROPS:
      ctx.violation(key, what, wit)
    else:
      ctx.count('other_property_disagreements')
  if n < 2:
    ctx.sample({'spec': spec, 'start': start, 'script': script})
