"""sysx -- systematic (delay-bounded, depth-first) exploration of the schedules of one small scenario.

Random and PCT schedules sample the interleavings of a scenario; this explorer *enumerates* them: every schedule that
deviates at most `max_preempt` times from the deterministic default scheduler (default: the running thread continues; when
it blocks or ends, the lowest-numbered enabled thread runs).  A deviation is any other choice at a decision point - a
preemption of the running thread, or a different pick at a blocking point.  This is delay-bounded scheduling (Emmi, Qadeer,
Rakamaric 2011), a variant of the CHESS preemption bound in which the choices at blocking points are bounded as well
(with the fabric, writer, timer and poster threads around, leaving them free makes the space explode: the first version
of this explorer did and could not finish a two-poster scenario).  Most concurrency defects need very few deviations, and
for a fixed bound the space is polynomial in the number of decision points, so small scenarios can be covered completely.

The scenario is the check's ordinary `run_case(ctx, n)` for a fixed case number: its parameters come from the case's
seeded generator and are therefore identical on every run; only the schedule differs.  While `detsched.OVERRIDE` is set,
every scheduler the scenario creates follows the explicit choice list (policy 'script': choice 0 = let the running thread
continue, or the lowest-numbered enabled thread when it cannot) and records, per decision point, (choice, number of
options, whether the running thread could have continued).  The next schedule is the lexicographic successor within the
preemption bound, so no stack of pending schedules is kept and a replay of the case re-enumerates the same sequence.

Verdicts are the scenario's own (ctx.violation); the explorer stops a scenario at its first violation.  Counters:
  systematic_schedules                  schedules executed
  systematic_scenarios_exhausted        scenarios whose space (within the bound) was enumerated completely
  systematic_scenarios_cut              scenarios stopped by the run or time cap (reported, never a verdict)
  systematic_max_decision_points        largest number of decision points seen in one schedule
"""
import time

from vt import detsched as ds


def successor(decisions, max_preempt):
  """the lexicographically next choice list with at most max_preempt deviations from the default scheduler, or None"""
  costs, cost = [], 0
  for (c, nopt, me_en) in decisions:
    costs.append(cost)
    cost += 1 if c > 0 else 0
  for i in range(len(decisions) - 1, -1, -1):
    c, nopt, me_en = decisions[i]
    if c + 1 < nopt and costs[i] + 1 <= max_preempt:
      return [d[0] for d in decisions[:i]] + [c + 1]
  return None


def explore(ctx, n, run_once, max_preempt=2, max_runs=2000, max_seconds=20.0):
  """run_once(ctx, n) executes the scenario once (it must create its scheduler with ds.Sched(...)).
  Returns (schedules run, exhausted?)."""
  script, runs, t0 = [], 0, time.time()
  exhausted = False
  nv = ctx.nviol
  small = getattr(ctx, 'small', False)
  ctx.small = True
  try:
    while True:
      ds.OVERRIDE = {'script': script}
      ds.LAST = None
      try:
        run_once(ctx, n)
      finally:
        ds.OVERRIDE = None
      runs += 1
      s = ds.LAST
      if ctx.nviol > nv or s is None:
        break
      ctx.maxc('systematic_max_decision_points', len(s.decisions))
      ctx.maxc('systematic_max_deviations_in_one_schedule', sum(1 for (c, _, me_en) in s.decisions if c > 0))
      script = successor(s.decisions, max_preempt)
      if script is None:
        exhausted = True
        break
      if runs >= max_runs or time.time() - t0 > max_seconds or time.time() > ctx.deadline:
        break
  finally:
    ctx.small = small
  ctx.count('systematic_schedules', runs)
  if ctx.nviol == nv:
    ctx.count('systematic_scenarios_exhausted' if exhausted else 'systematic_scenarios_cut')
    if exhausted:
      ctx.count('systematic_schedules_in_exhausted_scenarios', runs)
  return runs, exhausted


def run_case(ctx, n, sys_cfg, scenario):
  """the first sys_cfg[tier][0] case numbers of a run are explored systematically, the rest are sampled as before.
  sys_cfg[tier] = (systematic cases, preemption bound, schedule cap, seconds cap per scenario)"""
  k = sys_cfg[ctx.tier]
  if n < k[0]:
    explore(ctx, n, scenario, *k[1:])
  else:
    scenario(ctx, n)


RULE_TEXT = ('The first cases of every run are SYSTEMATIC (vt/sysx.py): for a small scenario (2 threads, short plans) EVERY schedule that '
             'deviates at most %s times (thorough tier: %s, on more and larger scenarios) from the deterministic default scheduler - a deviation is a preemption of the running '
             'thread or a different pick at a blocking point - is enumerated depth-first; counters systematic_* report the schedules run and '
             'how many scenarios were enumerated completely within the bound. ')
