"""Oracles over a qrun.QResult: dispatch order (C14), defer/recall (C15), spy
(C19), trace (C20), live output (C21), state_name/state_fn/current_state (C23).
Returns findings tagged with the property they refute; each check reports its
own and counts the others."""
import re

from vt import chartgen as cg, qrun

RING = 500
RTC_RING = 250
TRACE_RE = re.compile(r'^\n?\[[^\]]*\] \[([^\]]*)\] e->(.*)\(\) (.*)->(.*)\n$')


def reflection(q, d):
  return '<- Queued:(%d) Deferred:(%d)' % (q, d)


def evaluate(ctx, res, spec, start, ext_ops, cfg, pre_start_ops=()):
  out = []
  names = spec['names']
  if cfg.get('pre_subscribe'):
    # subscribe() before start_at posted a meta event lifo: the object's first step handles it internally (in top)
    pre_start_ops = [('lifo', 'SUBSCRIBE_META_SIGNAL')] + list(pre_start_ops)
  if cfg.get('pre_publish'):
    pre_start_ops = ([('lifo', 'SUBSCRIBE_META_SIGNAL')] if cfg.get('pre_subscribe') else []) + [('lifo', 'PUBLISH_META_SIGNAL')] + [x for x in pre_start_ops if x[1] != 'SUBSCRIBE_META_SIGNAL']
  wit = {'spec': spec, 'start': start, 'ext_ops': ext_ops, 'config': cfg, 'pre_start_ops': list(pre_start_ops)}

  def bad(prop, key, what, **kw):
    out.append((prop, key, what, dict(wit, **kw)))
    return out
  if res.error is not None:
    return bad('C18', 'Cxx/exception', 'run raised %s at step %s' % res.error)
  instr = bool(res.instrumented) and cfg.get('spied', True)
  m = cg.Model(spec)
  qm = qrun.QueueModel()
  for kind, sig in pre_start_ops:
    qm.ext(kind, sig)
  exp_start = m.start(start)
  st = res.start
  if [r for r in st['log'] if r[0] in ('entry', 'exit', 'init')] != exp_start:
    return bad('C03', 'C03/start-actions-differ', 'start log %r expected %r' % (st['log'], exp_start))
  qm.apply_acts(st['log'], None)
  if qm.bad:
    return bad('C15', 'C15/recall-order', qm.bad)
  # ---- start observations
  if st['rest'] != names[m.cur]:
    return bad('C23', 'C23/state-name-after-start', 'state_name %r after start_at, current state is %s' % (st['rest'], names[m.cur]))
  if not res.run.is_handler_of(st['state_fn'], m.cur):
    return bad('C23', 'C23/state-fn-after-start', 'state_fn %r after start_at, current state is %s' % (st['state_fn'], names[m.cur]))
  if instr and st['cur'] != names[m.cur]:
    return bad('C23', 'C23/current-state-after-start', 'current_state() %r after start_at, current state is %s' % (st['cur'], names[m.cur]))
  ctx.count('name_observations')
  cur_after = {(0, 0): m.cur}       # model rest state after k steps and r further starts
  spy_bad = False
  nrestart = 0
  exp_full = []
  exp_live_spy = []          # what the live callback must have seen: never emptied by clear_spy()
  exp_trace = []
  exp_live_trace = []
  if instr:
    marks = ['POST_%s:%s' % (k.upper(), s) for k, s in pre_start_ops]
    exp = marks + ['START'] + qrun.expected_spy_lines(st['calls']) + [reflection(len(qm.q), len(qm.d))]
    ctx.count('spy_step_logs')
    if st['spy_rtc'] != exp:
      return bad('C19', 'C19/start-spy-differs', 'spy_rtc() after start_at %r expected %r' % (st['spy_rtc'], exp))
    exp_full += exp
    exp_live_spy += exp
    exp_trace.append(('top', None, names[m.cur]))
    exp_live_trace.append(('start_at', 'top', names[m.cur]))
    if st['ntrace'] != 1 or st['last_trace'] != exp_trace[0]:
      return bad('C20', 'C20/start-trace', 'trace after start_at has %d records, last %r; expected one %r' % (st['ntrace'], st['last_trace'], exp_trace[0]))
  # ---- steps
  i = 0
  prev_ntrace = st['ntrace']
  for oi, (kind, sig) in enumerate([(None, None)] + list(ext_ops)):
    if kind == 'clear_spy':
      ctx.count('clear_spy_calls')
      if instr and exp_full is not None:
        exp_full = []
      continue
    if kind == 'clear_trace':
      ctx.count('clear_trace_calls')
      if instr:
        exp_trace = []
        prev_ntrace = 0
      continue
    if kind == 'restart':
      # a further start_at of the same chart object: it must do - and record - what a first start does
      ctx.count('restarts_of_a_started_chart')
      rs = res.restarts[nrestart]
      nrestart += 1
      exp_start = m.start(sig)
      if [r for r in rs['log'] if r[0] in ('entry', 'exit', 'init')] != exp_start:
        return bad('C03', 'C03/start-actions-differ', 'second start_at(%s) of the same chart: log %r expected %r' % (names[sig], rs['log'], exp_start))
      qm.apply_acts(rs['log'], None)
      if qm.bad:
        return bad('C15', 'C15/recall-order', qm.bad)
      if rs['rest'] != names[m.cur]:
        return bad('C23', 'C23/state-name-after-start', 'state_name %r after a further start_at(%s) of the same chart, current state is %s' % (rs['rest'], names[sig], names[m.cur]))
      if not res.run.is_handler_of(rs['state_fn'], m.cur):
        return bad('C23', 'C23/state-fn-after-start', 'state_fn %r after a further start_at(%s) of the same chart, current state is %s' % (rs['state_fn'], names[sig], names[m.cur]))
      if instr and rs['cur'] != names[m.cur]:
        return bad('C23', 'C23/current-state-after-start', 'current_state() %r after a further start_at(%s) of the same chart, current state is %s' % (rs['cur'], names[sig], names[m.cur]))
      cur_after[(i, nrestart)] = m.cur
      if instr:
        exp = ['START'] + qrun.expected_spy_lines(rs['calls']) + [reflection(len(qm.q), len(qm.d))]
        ctx.count('spy_step_logs')
        if rs['spy_rtc'] != exp and not spy_bad:
          spy_bad = True
          bad('C19', 'C19/start-spy-differs', 'spy_rtc() after a further start_at(%s) of the same chart (after %d steps): %r expected %r' % (names[sig], i, rs['spy_rtc'], exp), failing_step=i)
        if exp_full is not None:
          exp_full += exp
        if exp_live_spy is not None:
          exp_live_spy += exp
        t = ('top', None, names[m.cur])
        exp_trace.append(t)
        exp_live_trace.append(('start_at', 'top', names[m.cur]))
        dn = rs['ntrace'] - prev_ntrace
        ring_full = prev_ntrace == RING
        prev_ntrace = rs['ntrace']
        if (dn != 1 and not ring_full) or rs['last_trace'] != t:
          return bad('C20', 'C20/start-trace', 'a further start_at(%s) of the same chart (after %d steps) appended %d trace records, last %r; expected one %r' % (names[sig], i, dn, rs['last_trace'], t), failing_step=i)
    elif kind is not None:
      qm.ext(kind, sig)
    while qm.q:
      want = qm.pop()
      if i >= len(res.steps):
        return bad('C14', 'C14/queued-event-not-dispatched', 'event %s is at the front of the queue model but no further step ran' % want, failing_step=i)
      rec = res.steps[i]
      first = next((r for r in rec['calls'] if r[0] == 'call'), None)
      got = first[2] if first else None
      if got != want:
        return bad('C14', 'C14/dispatch-order-differs', 'step %d dispatched %s, the deque model has %s at the front (model queue %r)' % (i, got, want, list(qm.q)), failing_step=i)
      prev = m.cur
      exp_log, skind, S, T = m.dispatch(want)
      if cg.strip_acts(rec['log']) != exp_log:
        return bad('C01', 'C0x/step-actions-differ', 'step %d (%s): log %r expected %r' % (i, want, rec['log'], exp_log), failing_step=i)
      qm.apply_acts(rec['log'], want)
      ctx.count('steps')
      nd = sum(1 for r in rec['log'] if r[0] == 'act' and r[1] == 'defer')
      nr = sum(1 for r in rec['log'] if r[0] == 'act' and r[1] == 'recall')
      if nd:
        ctx.count('defers', nd)
      if nr:
        ctx.count('recalls', nr)
        ctx.count('recalls_on_empty', sum(1 for r in rec['log'] if r[0] == 'act' and r[1] == 'recall' and r[2] is None))
      npost = sum(1 for r in rec['log'] if r[0] == 'act' and r[1].startswith('post'))
      if npost:
        ctx.count('handler_posts', npost)
      if qm.bad:
        return bad('C15', 'C15/recall-order', 'step %d: %s' % (i, qm.bad), failing_step=i)
      if rec['qlen'] != len(qm.q):
        return bad('C14', 'C14/queue-length-differs', 'after step %d the queue holds %d events, the deque model %d' % (i, rec['qlen'], len(qm.q)), failing_step=i)
      if rec['dlen'] != len(qm.d):
        return bad('C15', 'C15/deferred-length-differs', 'after step %d %d events are deferred, the model has %d' % (i, rec['dlen'], len(qm.d)), failing_step=i)
      # C23
      ctx.count('name_observations')
      if rec['rest'] != names[m.cur]:
        return bad('C23', 'C23/state-name-after-step', 'state_name %r after step %d (%s), current state is %s' % (rec['rest'], i, want, names[m.cur]), failing_step=i)
      if not res.run.is_handler_of(rec['state_fn'], m.cur):
        return bad('C23', 'C23/state-fn-after-step', 'state_fn %r after step %d, current state is %s' % (rec['state_fn'], i, names[m.cur]), failing_step=i)
      if instr and rec['cur'] != names[m.cur]:
        return bad('C23', 'C23/current-state-after-step', 'current_state() %r after step %d, current state is %s' % (rec['cur'], i, names[m.cur]), failing_step=i)
      if instr:
        exp = qrun.expected_spy_lines(rec['calls'])
        if want == 'SUBSCRIBE_META_SIGNAL':
          ctx.count('subscribe_meta_steps')
          exp.append('SUBSCRIBING TO:(VT_PRE_SUB, TYPE:%s)' % cfg['pre_subscribe'])     # written by top, which handles the meta event
        if want == 'PUBLISH_META_SIGNAL':
          ctx.count('publish_meta_steps')
          exp.append('PUBLISH:(VT_PRE_PUB, PRIORITY:1000)')
        exp.append(reflection(len(qm.q), len(qm.d)))
        if len(exp) < RTC_RING:
          ctx.count('spy_step_logs')
          ctx.maxc('max_spy_lines_per_step', len(exp))
          if rec['spy_rtc'] != exp and not spy_bad:
            # (recorded, and the evaluation goes on: what the step log SHOULD hold comes from the ground truth, so the full spy,
            # the trace and the live output of the run can still be judged - by the checks that own them)
            spy_bad = True
            bad('C19', 'C19/step-spy-differs', 'spy_rtc() after step %d (%s): %r expected %r' % (i, want, rec['spy_rtc'], exp), failing_step=i)
          if exp_full is not None:
            if any(r[0] == 'act' and r[1] == 'clear_spy' for r in rec['log']):
              # a handler emptied the full spy in the middle of this step: the step's own lines are added at its end
              ctx.count('clear_spy_calls_inside_a_step')
              exp_full = list(exp)
            else:
              exp_full += exp
          if exp_live_spy is not None:
            exp_live_spy += exp
        else:
          ctx.count('steps_beyond_rtc_ring')
          exp_full = exp_live_spy = None
        dn = rec['ntrace'] - prev_ntrace
        ring_full = prev_ntrace == RING
        prev_ntrace = rec['ntrace']
        ctx.count('trace_steps')
        if skind == 'tran':
          ctx.count('trace_transitions')
          t = (names[prev], want, names[m.cur])
          exp_trace.append(t)
          exp_live_trace.append((want, names[prev], names[m.cur]))
          if (dn != 1 and not ring_full) or rec['last_trace'] != t:
            return bad('C20', 'C20/transition-record', 'step %d (%s, transition %s->%s): %d new trace records, last %r' % (i, want, names[prev], names[m.cur], dn, rec['last_trace']), failing_step=i)
        else:
          ctx.count('trace_non_transitions')
          if dn != 0:
            return bad('C20', 'C20/record-without-transition', 'step %d (%s, %s): %d new trace records, last %r' % (i, want, skind, dn, rec['last_trace']), failing_step=i)
      i += 1
      cur_after[(i, nrestart)] = m.cur
  if i != len(res.steps):
    return bad('C14', 'C14/extra-step', '%d steps ran, the deque model allows %d' % (len(res.steps), i))
  if qm.q:
    return bad('C14', 'C14/queue-not-empty', 'queue model not empty at the end')
  if instr:
    for (k, val) in getattr(res, 'cur_after_queries', ()):
      ctx.count('current_state_asked_after_queries')
      if k in cur_after and val != names[cur_after[k]]:
        return bad('C23', 'C23/current-state-after-query', 'current_state() returned %r right after is_in / child_state queries made after step %d; the chart took no step and rests in %s' % (val, k[0] - 1, names[cur_after[k]]), failing_step=k[0] - 1)
  if instr:
    if exp_full is not None:
      ctx.count('full_spy_compared')
      if len(exp_full) > RING:
        ctx.count('full_spy_ring_crossed')
      if res.spy_full != exp_full[-RING:] and not spy_bad:
        bad('C19', 'C19/full-spy-differs', 'spy() has %d lines and differs from the concatenation of the step logs (%d lines, ring %d)' % (len(res.spy_full), len(exp_full), RING),
                   got_tail=res.spy_full[-12:], expected_tail=exp_full[-12:])
    ctx.count('full_trace_compared')
    if getattr(res, 'trace_error', None):
      return bad('C20', 'C20/trace-raises', 'trace() raised %s; trace records %r' % (res.trace_error, res.trace_records[-3:]))
    if len(exp_trace) > RING:
      ctx.count('trace_ring_crossed')
    if res.trace_records != exp_trace[-RING:]:
      return bad('C20', 'C20/full-trace-differs', 'trace has %d records, expected %d; tails %r vs %r' % (len(res.trace_records), len(exp_trace[-RING:]), res.trace_records[-3:], exp_trace[-3:]))
    if cfg.get('live_spy') and exp_live_spy is not None:
      ctx.count('live_spy_runs')
      ctx.count('live_spy_lines', len(exp_live_spy))
      if res.live_spy != exp_live_spy:
        k = next((j for j, (a, b) in enumerate(zip(res.live_spy, exp_live_spy)) if a != b), min(len(res.live_spy), len(exp_live_spy)))
        return bad('C21', 'C21/live-spy-differs', 'live spy callback got %d lines, %d were produced; first difference at line %d: %r vs %r' % (
          len(res.live_spy), len(exp_live_spy), k, res.live_spy[k:k + 2], exp_live_spy[k:k + 2]))
    if cfg.get('live_trace'):
      ctx.count('live_trace_runs')
      ctx.count('live_trace_records', len(exp_live_trace))
      got = []
      for line in res.live_trace:
        mm = TRACE_RE.match(line)
        got.append((mm.group(2), mm.group(3), mm.group(4)) if mm else ('unparsed', line, ''))
      if got != exp_live_trace:
        k = next((j for j, (a, b) in enumerate(zip(got, exp_live_trace)) if a != b), min(len(got), len(exp_live_trace)))
        return bad('C21', 'C21/live-trace-differs', 'live trace callback got %d records, %d were produced; first difference at %d: %r vs %r' % (
          len(got), len(exp_live_trace), k, got[k:k + 2], exp_live_trace[k:k + 2]), clock=cfg.get('clock'))
  return out
