import sys
from vt import core
if __name__ == '__main__':
  core.worker_main(sys.argv[1:])
