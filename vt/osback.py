"""osback -- the OS-thread backend: a second opinion that does not depend on detsched or its shims.

The scenario runs on REAL threads with the REAL primitives (threading.Thread, queue.Queue, threading.RLock, time.sleep):
nothing in miros is substituted.  Interleavings are perturbed instead of chosen: the interpreter's switch interval is
set to 1 microsecond and a line tracer installed for every thread yields (`time.sleep(0)`) or sleeps a few microseconds
at random line starts of the files under miros/ - delays injected at existing suspension points, never inside a C-level
primitive.  Only verdicts that need no wall clock are produced here: identity, uniqueness, exactly-once, serial
equivalence and ordering facts read after every thread has been joined.  A thread that does not finish within the
(generous) wall-clock limit makes the case INCONCLUSIVE for this backend - counted, never a violation, and never the
exit status of the check (the deciding engine for hangs is detsched, which decides deadlock exactly).
"""
import itertools
import os
import random
import sys
import threading
import time

from vt import load

MIROS_DIR = os.path.join(os.path.realpath(load.ROOT), 'miros') + os.sep


class Perturb:
  """context manager: tiny switch interval + random yields at line starts of miros code, in every thread"""
  def __init__(self, seed, p_yield=0.15, p_sleep=0.02, extra_files=()):
    self.seed, self.p_yield, self.p_sleep = seed, p_yield, p_sleep
    self.files = {}
    self.extra = tuple(extra_files)
    self.local = threading.local()
    self.yields = itertools.count()
    self.nyields = 0

  def _focus(self, fn):
    r = self.files.get(fn)
    if r is None:
      r = self.files[fn] = fn.startswith(MIROS_DIR) or fn in self.extra
    return r

  def _rng(self):
    r = getattr(self.local, 'rng', None)
    if r is None:
      r = self.local.rng = random.Random((self.seed, threading.get_ident()).__hash__())
    return r

  def _line(self, frame, event, arg):
    if event == 'line':
      x = self._rng().random()
      if x < self.p_sleep:
        self.nyields = next(self.yields)
        time.sleep(x * 0.002)
      elif x < self.p_yield:
        self.nyields = next(self.yields)
        time.sleep(0)
    return self._line

  def _call(self, frame, event, arg):
    if event == 'call' and self._focus(frame.f_code.co_filename):
      return self._line
    return None

  def __enter__(self):
    self.saved = sys.getswitchinterval()
    sys.setswitchinterval(1e-6)
    threading.settrace(self._call)
    sys.settrace(self._call)
    return self

  def __exit__(self, *a):
    sys.settrace(None)
    threading.settrace(None)
    sys.setswitchinterval(self.saved)
    return False


class Stamp:
  """a process-wide logical clock for client-boundary records (itertools.count: next() is atomic under the GIL)"""
  def __init__(self):
    self._c = itertools.count(1)

  def __call__(self):
    return next(self._c)


def run_threads(targets, limit=30.0):
  """starts one real thread per (callable, args); releases them together; joins with a wall-clock limit.
  Returns (finished?, exceptions [(index, repr)])"""
  barrier = threading.Barrier(len(targets))
  excs = []

  def wrap(i, fn, args):
    try:
      barrier.wait(limit)
      fn(*args)
    except BaseException as ex:       # noqa
      excs.append((i, repr(ex)))
  ths = [threading.Thread(target=wrap, args=(i, fn, args), daemon=True) for i, (fn, args) in enumerate(targets)]
  for t in ths:
    t.start()
  deadline = time.time() + limit
  for t in ths:
    t.join(max(0.0, deadline - time.time()))
  return all(not t.is_alive() for t in ths), excs


def wait_for(pred, limit=15.0, step=0.002):
  deadline = time.time() + limit
  while time.time() < deadline:
    if pred():
      return True
    time.sleep(step)
  return pred()
