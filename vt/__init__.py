"""vt -- runtime-monitoring machinery for miros (see /verif/DESIGN.md)."""
