"""Runs one (spec, start, script) on any miros host / configuration and returns
everything observable: per-step ground-truth logs, rest states, spy / trace
output, live callback output, exceptions.  Used by C17-C23."""
import threading

from miros.event import signals, Event, return_status as RS
from miros.hsm import HsmEventProcessor, InstrumentedHsmEventProcessor, HsmWithQueues
from miros.activeobject import ActiveObject
from vt import chartgen as cg


class Inconclusive(Exception):
  pass


INNER = ('ENTRY_SIGNAL', 'EXIT_SIGNAL', 'INIT_SIGNAL', 'REFLECTION_SIGNAL', 'EMPTY_SIGNAL',
         'SEARCH_FOR_SUPER_SIGNAL', 'STOP_FABRIC_SIGNAL', 'STOP_ACTIVE_OBJECT_SIGNAL',
         'SUBSCRIBE_META_SIGNAL', 'PUBLISH_META_SIGNAL')


def all_configs():
  out = []
  for spied in (False, True):
    out.append({'host': 'plain', 'spied': spied})
    out.append({'host': 'instr', 'spied': spied})
    for instrumented in (True, False):
      for ls in (False, True):
        for lt in (False, True):
          out.append({'host': 'queued', 'spied': spied, 'instrumented': instrumented, 'live_spy': ls, 'live_trace': lt})
          for named in (True, False):
            out.append({'host': 'ao', 'spied': spied, 'instrumented': instrumented, 'named': named, 'live_spy': ls, 'live_trace': lt})
  return out


def style_configs():
  """handler styles beyond plain functions: un-spied states carrying a foreign functools.wraps decorator (a user's own timing /
  logging wrapper).  (Bound-method handlers - a new object per access - are NOT generated: miros compares handlers by identity in
  trans_ and its own Factory stores plain functions on the instance; see DESIGN.md section 10.)"""
  out = []
  for host in ('plain', 'instr', 'queued', 'ao'):
    extra = {'named': True} if host == 'ao' else {}
    out.append(dict({'host': host, 'spied': False, 'deco': 'wraps'}, **extra))
    if host in ('queued', 'ao'):
      out.append(dict({'host': host, 'spied': False, 'deco': 'wraps', 'instrumented': False}, **extra))
    # stacked decorators: spy_on over the user's decorator, and two user decorators on an un-spied handler
    out.append(dict({'host': host, 'spied': True, 'deco': 'spy-over-wraps'}, **extra))
    out.append(dict({'host': host, 'spied': False, 'deco': 'wraps-twice'}, **extra))
  return out


def cfg_name(c):
  return '%s%s%s%s%s%s%s%s' % (c['host'], '+mixed' if c.get('mixed') is not None else '', ('+' + c['deco']) if c.get('deco') else '', '+spied' if c.get('spied') else '',
                           '' if c.get('instrumented', True) else '+uninstr',
                           '+unnamed' if c.get('named') is False else '',
                           '+livespy' if c.get('live_spy') else '', '+livetrace' if c.get('live_trace') else '')


class Result:
  def __init__(self):
    self.start_log = None       # ground-truth log of start_at
    self.step_logs = []         # per step
    self.rest = []              # state_name after start and each step
    self.state_fn_ok = []
    self.current_state = []     # current_state() after start and each step (queued hosts)
    self.spy_rtc = []           # spy_rtc() after start and each step
    self.spy_full = None
    self.trace_records = None   # list of (start_state, signal, end_state)
    self.trace_text = None
    self.live_spy = []
    self.live_trace = []
    self.calls = []             # per step Run.trace (call/ret/mark records)
    self.error = None
    self.error_step = None
    self.instrumented_effective = None
    self.queries = []
    self.query_answer_index = {}     # position in queries -> index of the state whose handler child_state returned
    self.restart_log = self.restart_rest = None


def run_config(spec, start, script, cfg, queries=None, clock=None, keep_chart=False, run_kwargs=None):
  """queries: optional {step_index: [('is_in', i) | ('child_state', i)]}, executed
  after that step (index -1 = after start)."""
  res = Result()
  mask = None
  if cfg.get('mixed') is not None:
    import random as _random
    r = _random.Random(cfg['mixed'])
    mask = [r.random() < 0.5 for _ in range(spec['n'])]
  run = cg.Run(spec, spied=cfg.get('spied', False), foreign_deco=cfg.get('deco') or False, spied_mask=mask, **(run_kwargs or {}))
  host = cfg['host']
  sem = threading.Semaphore(0)
  gate = threading.Lock()     # the post call (enqueue, then POST_* spy marker) returns before the object's step begins, see qrun.run
  ao = None
  try:
    if host == 'plain':
      chart = cg.counted_host(HsmEventProcessor, run)()
    elif host == 'instr':
      chart = cg.counted_host(InstrumentedHsmEventProcessor, run)()
    elif host == 'queued':
      chart = cg.counted_host(HsmWithQueues, run)(instrumented=cfg.get('instrumented', True))
    else:
      base = cg.counted_host(ActiveObject, run)

      class SyncAO(base):
        def next_rtc(self):
          with gate:
            pass
          try:
            return base.next_rtc(self)
          except BaseException as ex:   # keep the verdict in the harness thread
            self._vt_exc = ex
          finally:
            sem.release()
      chart = SyncAO(name='ao_chart' if cfg.get('named', True) else None, instrumented=cfg.get('instrumented', True))
      chart._vt_exc = None
      if not cfg.get('instrumented', True):
        chart.instrumented = False     # the constructor of ActiveObject loses the flag (it lands in maxlen)
      ao = chart
    if host in ('queued', 'ao'):
      chart.live_spy = cfg.get('live_spy', False)
      chart.live_trace = cfg.get('live_trace', False)
      chart.register_live_spy_callback(res.live_spy.append)
      chart.register_live_trace_callback(res.live_trace.append)

    def snapshot():
      res.rest.append(getattr(chart, 'state_name', None))
      fn = getattr(chart, 'state_fn', None)
      res.state_fn_ok.append(fn)
      if host in ('queued', 'ao'):
        res.current_state.append(chart.current_state())
        res.spy_rtc.append(chart.spy_rtc() if chart.instrumented else None)
      elif host == 'instr':
        res.spy_rtc.append(list(chart.rtc.spy))

    def do_queries(k):
      for q in (queries or {}).get(k, ()):
        try:
          # the argument 'top' is the chart's own outermost pseudo-state: chart.top (a bound method - every access builds a new,
          # equal but not identical object)
          arg = chart.top if q[1] == 'top' else run.fns[q[1]]
          if q[0] == 'is_in':
            r = chart.is_in(arg)
          else:
            r = chart.child_state(arg)
            res.query_answer_index[len(res.queries)] = next((i for i in range(spec['n']) if run.is_handler_of(r, i)), None)
            r = getattr(r, '__name__', r)
          res.queries.append((k, q, 'ok', r))
        except cg.Budget:
          raise
        except Exception as ex:
          res.queries.append((k, q, 'raise', type(ex).__name__))

    # ---- start
    try:
      chart.start_at(run.fns[start])
    except cg.Budget:
      res.error, res.error_step = 'Budget', -1
      return res
    except Exception as ex:
      res.error, res.error_step = '%s: %s' % (type(ex).__name__, ex), -1
      return res
    res.start_log = list(run.log)
    res.calls.append(list(run.calls_log))
    res.instrumented_effective = getattr(chart, 'instrumented', None)
    snapshot()
    do_queries(-1)
    # ---- steps
    for k, sn in enumerate(script):
      run.reset_logs()
      ev = Event(signal=sn)
      try:
        if host in ('plain', 'instr'):
          chart.dispatch(ev)
        elif host == 'queued':
          chart.post_fifo(ev)
          chart.next_rtc()
        else:
          with gate:
            chart.post_fifo(ev)
          if not sem.acquire(timeout=20):
            raise Inconclusive('active object did not finish step %d within 20 s' % k)
          if chart._vt_exc is not None:
            raise chart._vt_exc
      except cg.Budget:
        res.error, res.error_step = 'Budget', k
        return res
      except Inconclusive:
        raise
      except Exception as ex:
        res.error, res.error_step = '%s: %s' % (type(ex).__name__, ex), k
        return res
      res.step_logs.append(list(run.log))
      res.calls.append(list(run.calls_log))
      snapshot()
      do_queries(k)
    if cfg.get('restart') is not None and host != 'ao':
      # the same chart object is started a second time (after its trace was cleared, where the host keeps one)
      if hasattr(chart, 'clear_trace'):
        chart.clear_trace()
      run.reset_logs()
      try:
        chart.start_at(run.fns[cfg['restart']])
      except cg.Budget:
        res.error, res.error_step = 'Budget', 'restart'
        return res
      except Exception as ex:
        res.error, res.error_step = '%s: %s' % (type(ex).__name__, ex), 'restart'
        return res
      res.restart_log, res.restart_rest = list(run.log), getattr(chart, 'state_name', None)
    if host in ('queued', 'ao', 'instr') and getattr(chart, 'instrumented', False):
      res.spy_full = list(chart.full.spy)
      res.trace_records = [(t.start_state, t.signal, t.end_state) for t in chart.full.trace]
      if host != 'instr':
        res.trace_text = chart.trace()
    if keep_chart:
      res.chart, res.run = chart, run
    return res
  finally:
    if ao is not None:
      try:
        if ao.thread is not None:
          ao.stop()
        # let the writer thread drain live output before the lists are read
        if (cfg.get('live_spy') or cfg.get('live_trace')) and ao.writer.is_alive():
          ao.writer._queue.join()
      except Exception:
        pass
