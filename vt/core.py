"""Worker context, worker entry point and the aggregating command line.

A check module (vt/checks/cNN.py) provides

  ID        'C01'
  RULE      text: how cases are generated and what makes one non-trivial
  CASES     {'quick': n, 'thorough': n}   total number of cases per tier
  BUDGET    {'quick': seconds, 'thorough': seconds}  per-worker wall budget
  REQUIRE   {counter: minimum}  -- below it the run is INCONCLUSIVE
  ASSUME    [text, ...]
  run_case(ctx, n)   execute case n; report through ctx

Workers are separate `subprocess`es (never multiprocessing.Pool); each prints
JSON lines which the parent aggregates.  Verdicts are three-valued: exit 0
(held on what was observed and the monitors were reached), exit 1 (VIOLATION
line, replay file written), exit 3 (INCONCLUSIVE).
"""
import hashlib
import importlib
import json
import os
import random
import subprocess
import sys
import time
import traceback

from vt import load

PY = sys.executable
VERIF = load.VERIF


def stable_hash(obj):
  return hashlib.blake2b(repr(obj).encode('utf8', 'backslashreplace'),
                         digest_size=6).hexdigest()


def jsonable(o, depth=0):
  if depth > 12:
    return '...'
  if isinstance(o, (str, int, float, bool)) or o is None:
    return o
  if isinstance(o, dict):
    return {str(k): jsonable(v, depth + 1) for k, v in o.items()}
  if isinstance(o, (list, tuple, set, frozenset)):
    return [jsonable(v, depth + 1) for v in o]
  return repr(o)


class Ctx:
  def __init__(self, mod, tier, seed, wid, nw, budget_s, only_case=None, out=None):
    self.mod, self.pid = mod, mod.ID
    self.tier, self.seed, self.wid, self.nw = tier, seed, wid, nw
    self.deadline = time.time() + budget_s
    self.only_case = only_case
    self.out = out or sys.stdout
    self.counters = {}
    self.maxes = {}
    self.dist = set()
    self.samples = []
    self.ncases = 0
    self.nviol = 0
    self.cur = None
    self.timed_out = False
    self.last_flush = time.time()

  # -- helpers for checks
  def rng(self, *salt):
    h = hashlib.blake2b(repr((self.seed, self.pid) + salt).encode(), digest_size=8).digest()
    return random.Random(int.from_bytes(h, 'big'))

  def count(self, name, k=1):
    self.counters[name] = self.counters.get(name, 0) + k

  def maxc(self, name, v):
    if v > self.maxes.get(name, -1):
      self.maxes[name] = v

  def distinct(self, obj):
    if len(self.dist) < 250000:     # counted conservatively beyond this
      self.dist.add(stable_hash(obj))

  def sample(self, obj, cap=3):
    if len(self.samples) < cap:
      self.samples.append(jsonable(obj))

  def violation(self, key, what, witness=None):
    self.nviol += 1
    self.count('violations:' + key)
    rec = {'k': 'viol', 'key': key, 'what': what, 'case': self.cur,
           'wid': self.wid, 'nw': self.nw, 'seed': self.seed, 'tier': self.tier,
           'witness': jsonable(witness)}
    self._emit(rec)

  def _emit(self, rec):
    self.out.write(json.dumps(rec) + '\n')
    self.out.flush()

  def flush(self, final=False):
    # the distinct-hash list is only shipped with the final record (it can be large)
    self._emit({'k': 'sum', 'final': final, 'cases': self.ncases,
                'counters': self.counters, 'maxes': self.maxes,
                'distinct': sorted(self.dist) if final else [], 'ndistinct': len(self.dist), 'samples': self.samples,
                'timed_out': self.timed_out})
    self.last_flush = time.time()

  def case_numbers(self):
    if self.only_case is not None:
      yield self.only_case
      return
    total = self.mod.CASES[self.tier]
    n = self.wid
    while n < total:
      if time.time() > self.deadline:
        self.timed_out = True
        return
      yield n
      n += self.nw


def run_worker(pid, tier, seed, wid, nw, budget_s, only_case=None, out=None):
  load.setup()
  mod = importlib.import_module('vt.checks.' + pid.lower())
  ctx = Ctx(mod, tier, seed, wid, nw, budget_s, only_case, out)
  if hasattr(mod, 'setup_worker'):
    mod.setup_worker(ctx)
  verbose_begin = getattr(mod, 'ANNOUNCE_CASES', False)
  for n in ctx.case_numbers():
    ctx.cur = n
    if verbose_begin:
      ctx._emit({'k': 'begin', 'case': n})
    try:
      mod.run_case(ctx, n)
    except Exception as ex:
      tb = traceback.extract_tb(ex.__traceback__)
      origin = os.path.realpath(tb[-1].filename) if tb else ''
      if origin.startswith(os.path.join(os.path.realpath(load.ROOT), 'miros') + os.sep):
        # raised INSIDE miros while the harness was driving a well-formed scenario and not anticipated by the check: the
        # library failed where the unchanged tree does not - a verdict, keyed by where it was raised
        where = '%s:%s' % (os.path.basename(origin), tb[-1].name)
        ctx.violation('%s/miros-raises/%s/%s' % (ctx.pid, type(ex).__name__, where),
                      'miros raised %s: %s (in %s) while the check was driving it' % (type(ex).__name__, ex, where),
                      {'traceback_tail': traceback.format_exc()[-1500:]})
      else:
        # an exception raised by the harness itself is a harness problem, never a verdict
        ctx._emit({'k': 'harness_error', 'case': n, 'tb': traceback.format_exc()[-3000:]})
        ctx.count('harness_errors')
    ctx.ncases += 1
    if time.time() - ctx.last_flush > 2.0:
      ctx.flush()
    if getattr(mod, 'FRESH_PROCESS_AFTER_VIOLATION', False) and ctx.nviol:
      break
  if hasattr(mod, 'teardown_worker'):
    mod.teardown_worker(ctx)
  ctx.flush(final=True)
  return ctx


def worker_main(argv):
  pid, tier, seed, wid, nw, budget = argv[0], argv[1], int(argv[2]), int(argv[3]), int(argv[4]), float(argv[5])
  only = int(argv[6]) if len(argv) > 6 else None
  import faulthandler
  faulthandler.enable()
  # A worker must never outlive its supervisor: a supervisor killed from outside (a time limit around the whole check) used to
  # leave workers that hang inside the code under test spinning for hours.  Two independent guards, neither needs the GIL:
  # the kernel kills the worker when its parent dies, and a C-level watchdog ends it a little after the supervisor's own grace.
  try:
    import ctypes, signal
    ctypes.CDLL(None, use_errno=True).prctl(1, int(signal.SIGKILL), 0, 0, 0)   # PR_SET_PDEATHSIG
    if os.getppid() == 1:
      os._exit(4)
  except Exception:
    pass
  faulthandler.dump_traceback_later(budget * 2 + 150, exit=True)
  run_worker(pid, tier, seed, wid, nw, budget, only)
  sys.stdout.flush()
  os._exit(0)   # leftover daemon / aborted threads must not keep the worker alive


# ---------------------------------------------------------------------------
# parent side

def load_known():
  p = os.path.join(VERIF, 'known_findings.json')
  try:
    with open(p) as f:
      return json.load(f).get('findings', [])
  except FileNotFoundError:
    return []


def parse_worker_output(text):
  viols, last, errs, begun = [], None, [], None
  for line in text.splitlines():
    line = line.strip()
    if not line.startswith('{'):
      continue
    try:
      rec = json.loads(line)
    except ValueError:
      continue
    k = rec.get('k')
    if k == 'viol':
      viols.append(rec)
    elif k == 'sum':
      last = rec
    elif k == 'harness_error':
      errs.append(rec)
    elif k == 'begin':
      begun = rec['case']
  return viols, last, errs, begun


def spawn(pid, tier, seed, wid, nw, budget, only=None):
  env = dict(os.environ)
  env['PYTHONHASHSEED'] = '0'
  env['PYTHONDONTWRITEBYTECODE'] = '1'
  env['PYTHONPATH'] = VERIF + (os.pathsep + env['PYTHONPATH'] if env.get('PYTHONPATH') else '')
  args = [PY, '-m', 'vt.worker', pid, tier, str(seed), str(wid), str(nw), str(budget)]
  if only is not None:
    args.append(str(only))
  return subprocess.Popen(args, stdout=subprocess.PIPE, stderr=subprocess.PIPE,
                          cwd=VERIF, env=env, text=True, errors='replace')


def main(argv=None):
  import argparse
  ap = argparse.ArgumentParser()
  ap.add_argument('pid')
  ap.add_argument('--tier', default=os.environ.get('VERIF_TIER', 'quick'))
  ap.add_argument('--seed', type=int, default=int(os.environ.get('VERIF_SEED', '0') or 0))
  ap.add_argument('--workers', type=int, default=0)
  ap.add_argument('--replay')
  ap.add_argument('--no-evidence', action='store_true')
  a = ap.parse_args(argv)
  pid = a.pid.upper()
  tier = a.tier if a.tier in ('quick', 'thorough') else 'quick'
  mod = importlib.import_module('vt.checks.' + pid.lower())
  t0 = time.time()

  if a.replay:
    with open(a.replay) as f:
      rp = json.load(f)
    p = spawn(pid, rp['tier'], rp['seed'], rp['wid'], rp['nw'], 600, rp['case'])
    try:
      out, err = p.communicate(timeout=900)
    except subprocess.TimeoutExpired:
      p.kill()
      out, err = p.communicate()
      print('INCONCLUSIVE property=%s replay timed out' % pid)
      return 3
    viols, last, errs, _ = parse_worker_output(out)
    for v in viols:
      print('VIOLATION property=%s replay=%s key=%s :: %s' % (pid, a.replay, v['key'], v['what']))
      print(json.dumps(v['witness'], indent=1)[:6000])
    if errs:
      print(errs[0]['tb'])
    if not viols:
      print('replay: no violation reproduced (case %s)' % rp['case'])
    return 1 if viols else 0

  nw = a.workers or getattr(mod, 'WORKERS', {}).get(tier, 0) or min(16, os.cpu_count() or 4)
  nw = max(1, min(nw, mod.CASES[tier]))
  budget = mod.BUDGET[tier]
  grace = budget * 2 + 90
  procs = {w: spawn(pid, tier, a.seed, w, nw, budget) for w in range(nw)}
  results, inconclusive = {}, []

  def collect(w, p, allow_retry):
    try:
      out, err = p.communicate(timeout=max(5, grace - (time.time() - t0)) if allow_retry else grace)
      dead = p.returncode != 0
    except subprocess.TimeoutExpired:
      p.kill()
      out, err = p.communicate()
      dead = True
    viols, last, errs, begun = parse_worker_output(out)
    if dead or last is None or not last.get('final'):
      return ('dead', viols, last, errs, begun, err[-2000:])
    return ('ok', viols, last, errs, begun, err[-2000:])

  retries = 0
  for w, p in procs.items():
    r = collect(w, p, True)
    if r[0] == 'dead' and (r[1] or any(x[1] for x in results.values()) or retries >= 2):
      # no second chance when a violation has been reported already (the verdict is settled: a worker that hangs inside the code
      # under test - a post that spins or blocks for good - would only hang again), nor for more than two workers of one run
      inconclusive.append('worker %d died/timed out (case in flight: %s) stderr: %s' % (w, r[4], r[5][-400:]))
    elif r[0] == 'dead':
      retries += 1
      # retry once in a fresh process with the same seed
      p2 = spawn(pid, tier, a.seed, w, nw, budget)
      r2 = collect(w, p2, False)
      if r2[0] == 'dead':
        inconclusive.append('worker %d died/timed out twice (case in flight: %s) stderr: %s' % (w, r2[4], r2[5][-400:]))
        r = ('dead', r[1] + r2[1], r2[2] or r[2], r2[3], r2[4], r2[5])
      else:
        r = r2
    results[w] = r

  counters, maxes, dist, samples, cases, viols, herrs = {}, {}, set(), [], 0, [], []
  timed_out = 0
  for w in sorted(results):
    _, v, last, errs, _, _ = results[w]
    viols += v
    herrs += errs
    if last:
      cases += last['cases']
      for k, x in last['counters'].items():
        counters[k] = counters.get(k, 0) + x
      for k, x in last['maxes'].items():
        maxes[k] = max(maxes.get(k, x), x)
      dist.update(last['distinct'])
      for s in last['samples']:
        if len(samples) < 4:
          samples.append(s)
      timed_out += 1 if last.get('timed_out') else 0

  if herrs:
    inconclusive.append('%d harness error(s); first: %s' % (len(herrs), herrs[0]['tb'][-1500:]))
  req = getattr(mod, 'REQUIRE', {})
  if isinstance(req.get(tier), dict):
    req = req[tier]
  for k, mn in req.items():
    if isinstance(mn, dict):
      continue
    if counters.get(k, 0) < mn:
      inconclusive.append('monitor counter %s=%d below required %d' % (k, counters.get(k, 0), mn))
  if len(dist) < 2:
    inconclusive.append('fewer than 2 distinct non-trivial cases observed')

  known = [k for k in load_known() if k.get('property') == pid and k.get('status') == 'known']
  known_keys = {k['key']: k for k in known}
  new_viols, known_hits = [], {}
  for v in viols:
    if v['key'] in known_keys:
      known_hits.setdefault(v['key'], []).append(v)
    else:
      new_viols.append(v)

  os.makedirs(os.path.join(VERIF, 'replays'), exist_ok=True)
  printed = set()
  for v in new_viols:
    if v['key'] in printed and len(printed) > 0:
      continue
    printed.add(v['key'])
    h = stable_hash((v['key'], v['case'], v['seed'], v['tier']))
    path = os.path.join(VERIF, 'replays', '%s-%s.json' % (pid, h))
    with open(path, 'w') as f:
      json.dump({'property': pid, 'key': v['key'], 'what': v['what'], 'tier': v['tier'],
                 'seed': v['seed'], 'wid': v['wid'], 'nw': v['nw'], 'case': v['case'],
                 'witness': v['witness']}, f, indent=1)
    print('VIOLATION property=%s replay=%s key=%s :: %s' % (pid, path, v['key'], v['what']))
  for key, hits in sorted(known_hits.items()):
    print('KNOWN-FINDING: property=%s %s (%s; seen %d times this run)' % (pid, known_keys[key]['what'], key, len(hits)))

  wall = time.time() - t0
  if not a.no_evidence:
    ev = {
      'property_id': pid, 'tier': tier, 'seed': a.seed, 'level': 'exploration',
      'coverage': {
        'evaluations': cases,
        'distinct_nontrivial': len(dist),
        'rule': mod.RULE,
        'samples': samples or ['(no sample recorded)'],
        'counters': counters, 'maxima': maxes,
        'workers': nw, 'workers_cut_by_time_budget': timed_out,
        'known_finding_hits': {k: len(v) for k, v in known_hits.items()},
        'new_violation_keys': sorted(printed),
        'inconclusive': inconclusive,
        'tree': load.ROOT,
      },
      'assumptions': getattr(mod, 'ASSUME', []),
      'wall_s': round(wall, 2),
      'violations': len(new_viols),
    }
    os.makedirs(os.path.join(VERIF, 'evidence'), exist_ok=True)
    with open(os.path.join(VERIF, 'evidence', pid + '.json'), 'w') as f:
      json.dump(ev, f, indent=1, sort_keys=True)

  brief = ' '.join('%s=%s' % kv for kv in sorted(counters.items()))
  print('%s tier=%s seed=%d cases=%d distinct=%d wall=%.1fs %s' % (pid, tier, a.seed, cases, len(dist), wall, brief))
  if new_viols:
    return 1
  if inconclusive:
    for m in inconclusive:
      print('INCONCLUSIVE property=%s %s' % (pid, m))
    return 3
  print('HELD property=%s on everything explored' % pid)
  return 0
