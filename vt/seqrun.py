"""Sequential differential runner: one spec, one host, start + script, compared
step by step with the reference model.  Used by C01-C03, C23 and others."""
from miros.event import signals, Event, return_status as RS
from miros.hsm import HsmEventProcessor
from vt import chartgen as cg


def split(log):
  offers = [r for r in log if r[0] in ('offer', 'guard')]
  actions = [r for r in log if r[0] in ('entry', 'exit', 'init')]
  return offers, actions


def pick_params(rng, tier):
  """strata: most charts small, a share deep / wide"""
  r = rng.random()
  if r < 0.55:
    return dict(nmax=12, shape=None)
  if r < 0.75:
    return dict(nmax=30 if tier == 'quick' else 40, shape='chain')
  if r < 0.85:
    return dict(nmax=24, shape='two')
  if r < 0.93:
    return dict(nmax=20, shape='comb')
  return dict(nmax=25 if tier == 'quick' else 40, shape=None)


def run_plain(ctx, rng, spec, start, script, host_cls=HsmEventProcessor, spied=False, query_rng=None, unset=None, host_kwargs=None):
  """Runs and compares; returns list of findings (prop, key, what, witness) --
  at most one (the run stops at the first disagreement) -- and fills counters."""
  run = cg.Run(spec, spied=spied)
  model = cg.Model(spec)
  chart = cg.counted_host(host_cls, run)(**(host_kwargs or {}))
  names = spec['names']
  wit = {'spec': spec, 'start': start, 'script': script}
  if unset:
    # the chart's state / temp holders are None when start_at is called (start_at has a branch that creates them)
    wit['attributes_set_to_None_before_start_at'] = list(unset)
    for a in unset:
      setattr(chart, a, None)
    ctx.count('starts_with_unset_state_holders')
  try:
    chart.start_at(run.fns[start])
  except cg.Budget:
    return [('C03', 'C03/start-does-not-terminate', 'start_at exceeded the step budget', wit)]
  exp = model.start(start)
  _, got = split(run.log)
  ctx.count('starts')
  ctx.maxc('start_entries', len(exp))
  if got != exp:
    return [('C03', 'C03/start-actions-differ', 'start_at(%s): actions %r expected %r' % (names[start], got, exp), wit)]
  if chart.state_name != names[model.cur]:
    return [('C03', 'C03/start-rest-state', 'start_at(%s) rests in %s expected %s' % (names[start], chart.state_name, names[model.cur]), wit)]
  queries = []
  if query_rng is not None:
    wit['client_queries_between_steps (before step, query, state)'] = queries
  for k, sn in enumerate(script):
    if query_rng is not None and query_rng.random() < 0.4:
      # client code asks is_in / child_state between two events (read-only by C22; the next event must still be
      # offered to the current state first)
      for _ in range(query_rng.randint(1, 2)):
        x = query_rng.randrange(spec['n'])
        q = 'is_in' if query_rng.random() < 0.6 else 'child_state'
        if hasattr(chart, 'current_state') and query_rng.random() < 0.4:
          q = 'current_state'        # queued hosts: the name query (it answers None on a chart that is not instrumented)
        queries.append((k, q, names[x]))
        try:
          if q == 'current_state':
            chart.current_state()
            ctx.count('current_state_queries_between_steps')
          else:
            getattr(chart, q)(run.fns[x])
        except cg.Budget:
          return [('C22', 'C22/query-does-not-terminate', '%s exceeded the step budget' % q, wit)]
        except Exception:
          pass                      # child_state of a state off the active path fails by contract
        ctx.count('client_queries_between_steps')
    run.reset_logs()
    prev = model.cur
    exp_log, kind, S, T = model.dispatch(sn)
    wit_k = dict(wit, failing_step=k, script=script[:k + 1], state_before=names[prev])
    try:
      chart.dispatch(Event(signal=sn))
    except cg.Budget:
      return [('C01' if kind == 'tran' else 'C02', 'C0x/dispatch-does-not-terminate', 'dispatch exceeded the step budget', wit_k)]
    eo, ea = split(exp_log)
    go, ga = split(run.log)
    ctx.count('steps')
    if go != eo:
      out = [('C02', 'C02/offer-sequence-differs', 'event %s in %s: offers %r expected %r' % (sn, names[prev], go, eo), wit_k)]
      if kind == 'tran' and (ga != ea or chart.state_name != names[model.cur]):
        # the same step also ran the wrong exits / entries / inits (or none): C01's business as well
        out.append(('C01', 'C01/transition-actions-differ', 'event %s in %s (S=%s T=%s): actions %r rest %s, expected %r rest %s (the event was also offered to the wrong states: %r)' % (
          sn, names[prev], names[S], names[T], ga, chart.state_name, ea, names[model.cur], go), wit_k))
      return out
    if kind == 'tran':
      ctx.count('transitions')
      tc = cg.topo_class(spec, S, T)
      ctx.count('topo_' + tc)
      depthS = cg.depth_of(spec['parent'], S)
      depthT = cg.depth_of(spec['parent'], T)
      n_init = sum(1 for r in ea if r[0] == 'init')
      n_entry = sum(1 for r in ea if r[0] == 'entry')
      ctx.maxc('max_entries_in_step', n_entry)
      ctx.maxc('max_init_chain', n_init)
      if depthT >= 4 and n_init >= 2:
        ctx.count('init_chain_after_deep_target')
      ctx.distinct(('tran', tc, depthS, depthT, cg.depth_of(spec['parent'], prev), n_init))
      if ga != ea:
        return [('C01', 'C01/transition-actions-differ',
                 'event %s in %s (S=%s T=%s topology %s): actions %r expected %r' % (sn, names[prev], names[S], names[T], tc, ga, ea), wit_k)]
      if chart.state_name != names[model.cur]:
        return [('C01', 'C01/rest-state-differs', 'after %s rests in %s expected %s' % (sn, chart.state_name, names[model.cur]), wit_k)]
    else:
      ctx.count('handled_steps' if kind == 'handled' else 'ignored_steps')
      if kind == 'handled':
        ctx.count('hooks_at_depth_%d' % min(9, cg.depth_of(spec['parent'], prev) - cg.depth_of(spec['parent'], S)))
      ndecl = sum(1 for r in eo if r[0] == 'guard' and not r[3])
      if ndecl:
        ctx.count('declines', ndecl)
      ctx.distinct((kind, len(eo), ndecl, cg.depth_of(spec['parent'], prev)))
      if ga:
        return [('C02', 'C02/actions-on-non-transition', 'event %s (%s) in %s ran %r' % (sn, kind, names[prev], ga), wit_k)]
      if chart.state_name != names[prev]:
        return [('C02', 'C02/state-changed-on-non-transition', 'event %s (%s) in %s left chart in %s' % (sn, kind, names[prev], chart.state_name), wit_k)]
  ctx.count('state_queries_made_by_actions', run.queries_in_actions)
  return []
