"""Shared case generator for the queued-host checks (C14, C15, C19-C21, C23)."""
from vt import chartgen as cg, qrun, qoracle, hosts


def gen_case(rng, tier, want_acts=True, allow_defer=True, long_run=False, hosts_=('queued', 'queued', 'ao'),
             spied=(True,), instrumented=(True,), live=False, n_ops=None, clears=False, decos=(None,), restarts=False):
  spec = cg.gen_spec(rng, nmax=rng.choice([4, 8, 12]), side_acts=want_acts, name_style=rng.choice(cg.NAME_STYLES), clause_queries=rng.random() < 0.3)
  if not allow_defer:
    for r in spec['react'].values():
      if 'acts' in r:
        r['acts'] = [a for a in r['acts'] if a[0] not in ('defer', 'recall')]
    for k in list(spec['acts']):
      spec['acts'][k] = [a for a in spec['acts'][k] if a[0] not in ('defer', 'recall')]
  cfg = {'host': rng.choice(hosts_), 'spied': rng.choice(spied), 'instrumented': rng.choice(instrumented),
         'named': rng.random() < 0.7, 'live_spy': live and rng.random() < 0.7, 'live_trace': live and rng.random() < 0.7}
  if len(decos) > 1:
    # handler styles: a user's functools.wraps decorator under spy_on ('spy-over-wraps') or two of them stacked ('wraps-twice')
    cfg['deco'] = rng.choice(decos)
    if cfg['deco'] == 'spy-over-wraps':
      cfg['spied'] = True
    elif cfg['deco']:
      cfg['spied'] = False
  if cfg['host'] == 'ao':
    spec['acts'] = {}     # no posts during start_at: the start snapshot of a threaded object must be stable
    if rng.random() < 0.3:
      cfg['pre_subscribe'] = rng.choice(['fifo', 'lifo'])     # the object subscribes to a signal before start_at
    if rng.random() < 0.2:
      cfg['pre_publish'] = True                               # ... and / or publishes before start_at
  start = rng.randrange(spec['n'])
  n_ops = n_ops or (rng.randint(120, 400) if long_run else rng.randint(5, 40))
  sigs = spec['sigs'][:-1]
  ops = [(('lifo' if rng.random() < 0.25 else 'fifo'), ('ZZ' if rng.random() < 0.05 else rng.choice(sigs))) for _ in range(n_ops)]
  if clears and rng.random() < 0.3:
    # ... and a handler or two call clear_spy() in the middle of their own step
    keys = sorted(spec['react'])
    for key in rng.sample(keys, min(len(keys), rng.randint(1, 2))):
      acts = spec['react'][key].setdefault('acts', [])
      acts.insert(rng.randint(0, len(acts)), ['clear_spy'])
  if clears and rng.random() < 0.5:
    # the client empties the full spy / the trace once or twice, early in the run (so that long runs fill the rings again)
    for _ in range(rng.randint(1, 2)):
      ops.insert(rng.randrange(0, max(1, len(ops) // 4)), (rng.choice(['clear_spy', 'clear_spy', 'clear_trace']), None))
  if restarts and cfg['host'] != 'ao' and not (cfg['live_spy'] or cfg['live_trace']) and rng.random() < 0.3:
    # the SAME chart object is started again once or twice in the middle of the run (start_at in a random state)
    for _ in range(rng.randint(1, 2)):
      ops.insert(rng.randrange(0, len(ops) + 1), ('restart', rng.randrange(spec['n'])))
  return spec, start, ops, cfg


def run_qcase(ctx, n, props, with_queries=False, **kw):
  rng = ctx.rng('case', n)
  spec, start, ops, cfg = gen_case(rng, ctx.tier, **kw)
  try:
    res = qrun.run(spec, start, ops, cfg, max_steps=len(ops) * 3 + 200, query_rng=ctx.rng('queries', n) if with_queries else None)
    if with_queries:
      ctx.count('queries_between_steps', res.nqueries)
  except hosts.Inconclusive:
    ctx.count('inconclusive_runs')
    return None
  findings = qoracle.evaluate(ctx, res, spec, start, ops, cfg)
  ctx.count('runs_' + cfg['host'])
  for prop, key, what, wit in findings:
    if prop in props:
      ctx.violation(key, what, wit)
    else:
      ctx.count('other_property_disagreements')
      ctx.count('other_' + key.replace('/', '_'))
  if n < 2:
    ctx.sample({'spec': spec, 'start': start, 'ext_ops': ops[:12], 'config': cfg, 'steps_run': len(res.steps)})
  return res, spec, cfg
