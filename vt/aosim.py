"""Active-object scenarios under detsched: posters, handlers that post, history
recording (post call/return records, linearised deque op log, dispatch
intervals).  Serves C04, C05, C12 and others."""
import collections
import threading

import miros.activeobject as AO
import miros.hsm as H
from miros.event import signals, Event, return_status as RS
from vt import detsched as ds

HSM_FUNCS = ['next_rtc', '_print_spy_if_live', '_print_trace_if_live', '_append_queue_reflection_to_spy',
             'post_fifo', 'post_lifo', '_append_fifo_to_spy', '_append_lifo_to_spy', 'complete_circuit',
             'defer', 'recall', '_append_recall_to_spy', '_append_defer_to_spy']


def policy_for(rng, est_len=600, fair_suffix=True):
  """seeded scheduling policy mix (DESIGN.md 2.3)"""
  r = rng.random()
  kw = {}
  if r < 0.6:
    kw.update(policy='random', p_switch=rng.choice([0.02, 0.1, 0.3, 0.6]))
  else:
    kw.update(policy='pct', pct_depth=rng.choice([2, 3, 4]), pct_len=est_len)
  if fair_suffix:
    kw['rr_after'] = rng.randint(est_len // 2, est_len * 3)
  return kw


class History:
  def __init__(self):
    self.posts = []        # dict(poster, uid, kind, call, ret)
    self.dispatch = []     # dict(uid, sig, enter, exit, thread)
    self.handled = []      # (uid) in handler order


def make_state(hist, fan, spied, name='c04_state'):
  """one flat state; events carry a unique id; ids in `fan` make the handler post
  further events: fan[uid] = [(kind, new_uid), ...]"""
  def st(chart, e):
    sig = e.signal
    if sig == signals.ENTRY_SIGNAL or sig == signals.INIT_SIGNAL or sig == signals.EXIT_SIGNAL:
      return RS.HANDLED
    if e.signal_name == 'C04_PUB':
      hist.handled.append(e.payload)
      return RS.HANDLED
    if e.signal_name == 'EVT':
      hist.handled.append(e.payload)
      for kind, uid in fan.get(e.payload, ()) if not isinstance(e.payload, tuple) else ():
        rec = {'poster': 'handler', 'uid': uid, 'kind': kind, 'call': ds.S.steps, 'ret': None}
        hist.posts.append(rec)
        (chart.post_fifo if kind == 'fifo' else chart.post_lifo)(Event(signal='EVT', payload=uid))
        rec['ret'] = ds.S.steps
      return RS.HANDLED
    chart.temp.fun = chart.top
    return RS.SUPER
  st.__name__ = name
  return H.spy_on(st) if spied else st


def make_ao(hist, name='ao', instrumented=True, base=None):
  base = base or AO.ActiveObject

  class MonAO(base):
    def dispatch(self, e):
      rec = {'uid': e.payload, 'sig': e.signal_name, 'enter': ds.S.steps, 'exit': None,
             'thread': threading.get_ident(), 'clock': ds.S.clock}
      hist.dispatch.append(rec)
      try:
        return base.dispatch(self, e)
      finally:
        rec['exit'] = ds.S.steps
  ao = MonAO(name=name, instrumented=instrumented)
  if not instrumented:
    # ActiveObject's constructor hands `instrumented` to HsmWithQueues as its first positional parameter (maxlen), so the flag
    # is lost there; the library's own tests switch an active object's instrumentation off through the attribute
    ao.instrumented = False
  return ao


def poster(ao, hist, who, plan):
  for kind, uid in plan:
    rec = {'poster': who, 'uid': uid, 'kind': kind, 'call': ds.S.steps, 'ret': None}
    hist.posts.append(rec)
    (ao.post_fifo if kind == 'fifo' else ao.post_lifo)(Event(signal='EVT', payload=uid))
    rec['ret'] = ds.S.steps


def install(s, extra_line_mods=(), op_funcs=None):
  ds.install(s, line_mods=[AO, H] + list(extra_line_mods), line_funcs={H: HSM_FUNCS}, op_funcs=op_funcs)


def deque_ops(ao):
  did = id(ao.locking_deque.deque)
  return [r for r in ds.OPLOG if r[3] == did]


def check_history(ao, hist, ao_ident, expect_all_dispatched=True):
  """C04 oracles over a finished (quiescent) run.  Returns list of (key, what).
  Behavioural: only post call/return steps, dispatch enter/exit steps and the
  final queue length are used (the queue operations miros performs are not
  prescribed); the deque log only adds diagnostics to the message."""
  out = []
  ops = deque_ops(ao)
  dseq = [d['uid'] for d in hist.dispatch if d['sig'] == 'EVT']
  denter = {}
  for d in hist.dispatch:
    if d['sig'] == 'EVT':
      denter.setdefault(d['uid'], d['enter'])
  # 1. exactly once
  cnt = collections.Counter(dseq)
  dup = [u for u, c in cnt.items() if c > 1 and not isinstance(u, tuple)]   # (tuple ids: timed sources repeat by design, checked by count)
  if dup:
    out.append(('C04/dispatched-twice', 'events %r dispatched more than once' % dup[:5]))
  posted = [p['uid'] for p in hist.posts if p['ret'] is not None]
  if expect_all_dispatched:
    missing = [u for u in posted if cnt.get(u, 0) == 0]
    if missing:
      pend = len(ao.queue)
      out.append(('C04/posted-never-dispatched' if not pend else 'C04/lost-wakeup-events-left-in-queue',
                  'posted events %r were never dispatched (queue holds %d events, %d tokens) although no thread has work left' % (missing[:6], pend, ds._q.Queue.qsize(ao.locking_deque.locking_queue))))
  known = set(p['uid'] for p in hist.posts)
  phantom = [u for u in dseq if u not in known and not isinstance(u, tuple)]   # (tuple ids: timed sources, checked by count)
  if phantom:
    out.append(('C04/phantom-dispatch', 'dispatched events %r that were never posted' % phantom[:5]))
  # 2. queue discipline, stated over call/return and dispatch steps only.  F "was waiting during" a post P when F's
  #    post returned before P's call started and F left the queue after P's call returned.
  pos = {u: i for i, u in enumerate(dseq)}
  # when an event left the queue: observed on the logging deque (whatever operation removed it); the dispatch is later
  removed = {}
  for (step, clock, who, did, op, item, ln) in ops:
    if op in ('popleft', 'pop') and getattr(item, 'signal_name', None) == 'EVT':
      removed.setdefault(item.payload, step)
  done = [p for p in hist.posts if p['ret'] is not None and p['uid'] in pos and cnt[p['uid']] == 1]
  for P in done:
    for F in done:
      if F is P or F['ret'] >= P['call']:
        continue
      if P['kind'] == 'fifo':
        # everything posted before a fifo post is ahead of it
        if pos[F['uid']] > pos[P['uid']]:
          out.append(('C04/fifo-post-overtook-earlier-event', 'event %s was posted fifo after the post of event %s had returned, but was dispatched before it' % (P['uid'], F['uid'])))
          break
      else:
        # a lifo post goes in front of everything that is waiting during the post
        if F['uid'] in removed and removed[F['uid']] > P['ret'] and pos[F['uid']] < pos[P['uid']]:
          out.append(('C04/lifo-post-not-at-front', 'event %s was posted lifo while event %s was waiting in the queue (posted before, taken from the queue after the lifo post returned), but %s was dispatched first' % (P['uid'], F['uid'], F['uid'])))
          break
    else:
      continue
    break
  # 3. steps never overlap, always on the object's thread
  ds_sorted = sorted((d for d in hist.dispatch), key=lambda d: d['enter'])
  for a, b in zip(ds_sorted, ds_sorted[1:]):
    if a['exit'] is None or a['exit'] > b['enter']:
      out.append(('C04/steps-overlap', 'run-to-completion steps of events %s and %s overlap' % (a['uid'], b['uid'])))
      break
  off = [d['uid'] for d in hist.dispatch if d['thread'] != ao_ident]
  if off:
    out.append(('C04/step-off-thread', 'events %r were dispatched off the active object\'s thread' % off[:5]))
  if out:
    out = [(k, w + ' [queue operations: %r]' % [(o[4], getattr(o[5], 'payload', o[5])) for o in ops][-14:]) for k, w in out]
  return out
