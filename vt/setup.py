"""setup_cmd: nothing to build (stdlib only); verifies that miros imports from
the tree under test and that the engines' self-tests pass."""
import sys
from vt import load

def main():
  m = load.setup()
  print('miros imported from', m.__file__)
  try:
    from vt import detsched_selftest
  except ImportError:
    return 0
  return detsched_selftest.main(quick=True)

if __name__ == '__main__':
  sys.exit(main())
