"""Self-test of detsched: toy programs with known answers + shim conformance."""
import math
import queue
import random
import sys
import threading
import types

from vt import load
load.setup()
from vt import detsched as ds

THIS = sys.modules[__name__]


def _run(sched, body, line_trace=True, funcs=None):
  ds.install(sched, line_mods=[THIS] if line_trace else [], log_deque=False, line_funcs={THIS: funcs} if funcs else None)
  try:
    return body(sched)
  finally:
    ds.uninstall()


def worker_steps(log, tag, k):
  for i in range(k):
    log.append((tag, i))


def toy_interleavings(k, cap=300):
  """two threads x k logged steps: seeded random schedules must reach all C(2k, k)
  distinct logs and nothing else; a short scripted depth-first sweep exercises the
  'script' policy used for exhaustive exploration of small scenarios"""
  seen = set()
  runs = 0

  def one(s):
    log = []

    def body(s):
      a = ds.SThread(target=worker_steps, args=(log, 'a', k))
      b = ds.SThread(target=worker_steps, args=(log, 'b', k))
      a.start()
      b.start()
      a.join()
      b.join()
    _run(s, body, funcs=['worker_steps'])
    return tuple(log)
  for seed in range(cap * 2):
    seen.add(one(ds.Sched(seed=seed, policy='random', p_switch=0.5)))
    runs += 1
  stack = [[]]
  dfs = set()
  while stack and runs < cap * 3:
    script = stack.pop()
    s = ds.Sched(policy='script')
    s.script = script
    dfs.add(one(s))
    runs += 1
    for i in range(len(script), len(s.decisions)):
      c, nopt = s.decisions[i][:2]
      for alt in range(c + 1, nopt):
        stack.append([d[0] for d in s.decisions[:i]] + [alt])
  for lg in seen | dfs:
    # every log must be a legal merge of the two program orders
    assert [x for x in lg if x[0] == 'a'] == [('a', i) for i in range(k)], lg
    assert [x for x in lg if x[0] == 'b'] == [('b', i) for i in range(k)], lg
  assert len(dfs) >= 2
  return len(seen | dfs), runs


def toy_sleepers():
  s = ds.Sched(seed=1, policy='random', p_switch=0.5)
  woke = []

  def sl(d, tag):
    ds.STime.sleep(d)
    woke.append((tag, s.clock))

  def body(s):
    ts = [ds.SThread(target=sl, args=(d, t)) for d, t in ((0.3, 'c'), (0.1, 'a'), (0.2, 'b'))]
    for t in ts:
      t.start()
    for t in ts:
      t.join()
  _run(s, body)
  return woke


def toy_own_wakeup():
  """regression: a thread whose sleep makes it the only one runnable advances the clock itself and
  must wake at ITS instant, not at the next sleeper's (a 0.01 s ticker next to a 0.1 s ticker)"""
  s = ds.Sched(seed=5, policy='pct', pct_depth=3, pct_len=50)
  woke = []

  def ticker(d, n, tag):
    for _ in range(n):
      ds.STime.sleep(d)
      woke.append((tag, round(s.clock, 9)))

  def body(s):
    ts = [ds.SThread(target=ticker, args=(0.1, 3, 'slow')), ds.SThread(target=ticker, args=(0.01, 4, 'fast'))]
    for t in ts:
      t.start()
    for t in ts:
      t.join()
  _run(s, body)
  return woke


def toy_deadlock():
  s = ds.Sched(seed=3, policy='script')
  s.script = [1, 1, 1, 1, 1, 1, 1, 1]
  l1, l2 = [None], [None]

  def t1():
    with l1[0]:
      x = 1
      with l2[0]:
        x = 2

  def t2():
    with l2[0]:
      x = 1
      with l1[0]:
        x = 2

  def body(s):
    l1[0], l2[0] = ds.SLock(), ds.SLock()
    a, b = ds.SThread(target=t1), ds.SThread(target=t2)
    a.start()
    b.start()
    a.join()
    b.join()
  # search a few scripts for the inversion
  for n in range(64):
    s = ds.Sched(seed=n, policy='random', p_switch=0.5)
    try:
      _run(s, body)
    except ds.Verdict as v:
      return v.kind
  return None


def toy_spin():
  s = ds.Sched(seed=0, policy='random', p_switch=0.0, max_steps=3000)
  flag = [False]

  def spin():
    while not flag[0]:
      pass

  def body(s):
    t = ds.SThread(target=spin)
    t.start()
    t.join()
  try:
    _run(s, body)
  except ds.Verdict as v:
    return v.kind
  return None


def conformance(n=300, seed=0):
  """single-threaded random op sequences: shim and real class must agree"""
  rng = random.Random(seed)
  bad = []
  s = ds.Sched(seed=0)
  ds.install(s, log_deque=False)
  try:
    for case in range(n):
      kind = rng.choice(['Queue', 'PriorityQueue', 'RLock', 'Lock'])
      if kind in ('Queue', 'PriorityQueue'):
        mx = rng.choice([0, 2, 5])
        real = getattr(queue, kind)(mx)
        shim = (ds.SQueue if kind == 'Queue' else ds.SPriorityQueue)(mx)
        for _ in range(30):
          op = rng.choice(['put', 'get', 'qsize', 'full', 'empty', 'task_done'])
          arg = rng.randrange(100)

          def do(q):
            try:
              if op == 'put':
                return ('ok', q.put(arg, block=False))
              if op == 'get':
                return ('ok', q.get(block=False))
              if op == 'task_done':
                return ('ok', q.task_done())
              return ('ok', getattr(q, op)())
            except Exception as ex:
              return ('raise', type(ex).__name__)
          a, b = do(real), do(shim)
          if a != b:
            bad.append((kind, op, a, b))
      else:
        real = threading.RLock() if kind == 'RLock' else threading.Lock()
        shim = ds.SRLock() if kind == 'RLock' else ds.SLock()
        for _ in range(20):
          op = rng.choice(['acquire_nb', 'release'])

          def do(l):
            try:
              if op == 'acquire_nb':
                return ('ok', l.acquire(blocking=False))
              return ('ok', l.release())
            except Exception as ex:
              return ('raise', type(ex).__name__)
          a, b = do(real), do(shim)
          if a != b:
            bad.append((kind, op, a, b))
  finally:
    ds.uninstall()
  return bad


def main(quick=True):
  ok = True
  k = 3 if quick else 4
  n, runs = toy_interleavings(k)
  exp = math.comb(2 * k, k)
  print('detsched selftest: interleavings of 2 threads x %d steps: %d distinct in %d runs (expected %d)' % (k, n, runs, exp))
  ok &= n == exp
  woke = toy_sleepers()
  print('detsched selftest: sleepers woke', woke)
  ok &= [w[0] for w in woke] == ['a', 'b', 'c'] and all(abs(c - e) < 1e-9 for (_, c), e in zip(woke, (0.1, 0.2, 0.3)))
  own = toy_own_wakeup()
  print('detsched selftest: tickers woke', own)
  ok &= [c for t, c in own if t == 'fast'] == [0.01, 0.02, 0.03, 0.04] and [c for t, c in own if t == 'slow'] == [0.1, 0.2, 0.3]
  d = toy_deadlock()
  print('detsched selftest: two-lock inversion ->', d)
  ok &= d == 'deadlock'
  sp = toy_spin()
  print('detsched selftest: spin on flag ->', sp)
  ok &= sp == 'step-budget'
  bad = conformance(100 if quick else 1000)
  print('detsched selftest: shim conformance disagreements:', bad[:3], len(bad))
  ok &= not bad
  print('detsched selftest:', 'OK' if ok else 'FAILED')
  return 0 if ok else 1


if __name__ == '__main__':
  sys.exit(main(quick='--full' not in sys.argv))
